#!/usr/bin/env python3
"""Regression over all kept seeded changes without touching /repo: each patch is applied to a scratch worktree (removed at the end) and the
quick check of its property is run with ACMC_REPO pointing there.  usage: regress_seeds.py [seed-id ...]   -> scratch/regress_seeds.txt"""
import glob, os, subprocess, sys
WT = "/tmp/regr_wt"
def sh(*a, **k): return subprocess.run(list(a), capture_output=True, text=True, **k)
want = set(sys.argv[1:])
sh("git", "-C", "/repo", "worktree", "remove", "--force", WT)
r = sh("git", "-C", "/repo", "worktree", "add", "--detach", WT, "HEAD")
assert os.path.isdir(WT), r.stderr
out = open("/verif/scratch/regress_seeds.txt", "a" if want else "w")
try:
    for d in sorted(glob.glob("/verif/seeded/C??-?")):
        sid = os.path.basename(d)
        if want and sid not in want: continue
        sh("git", "-C", WT, "checkout", "--", "."); sh("git", "-C", WT, "clean", "-fdq")
        a = sh("git", "-C", WT, "apply", d + "/patch.diff")
        if a.returncode:
            line = f"{sid} NOAPPLY {a.stderr.strip()[:100]}"
        else:
            p = sid[:3]
            c = sh("./check", p, cwd="/verif", env=dict(os.environ, ACMC_REPO=WT, ACMC_MAX_GROUPS="1"))
            cl = sorted({l.split("clause=")[1].split(" ")[0] for l in c.stdout.splitlines() if "clause=" in l})
            line = f"{sid} rc={c.returncode} {','.join(cl[:4])}"
        print(line); out.write(line + "\n"); out.flush()
finally:
    sh("git", "-C", "/repo", "worktree", "remove", "--force", WT)
