#!/bin/sh
# seeds x checks matrix: every seeded change (applied in its scratch worktree /tmp/seed/Cxx) against every quick check
out=${1:-/verif/scratch/matrix.txt}
mkdir -p "$(dirname "$out")"
: > "$out"
for seed in C01 C02 C03 C04 C05 C06 C07 C08 C09 C10 C11 C12 C13 C14 C15 C16 C17 C18 C19 C20; do
  line="$seed-a:"
  for p in C01 C02 C03 C04 C05 C06 C07 C08 C09 C10 C11 C12 C13 C14 C15 C16 C17 C18 C19 C20; do
    ACMC_REPO=/tmp/seed/$seed ./check $p > /tmp/matrix_${seed}_$p.txt 2>&1
    rc=$?
    line="$line $p=$rc"
  done
  echo "$line" >> "$out"
done
