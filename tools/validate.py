#!/usr/bin/env python3
"""Validate MANIFEST.json and every evidence file against the schemas (run with python3-vt)."""
import json, sys, os, glob
import jsonschema
H = os.path.dirname(os.path.dirname(os.path.abspath(__file__)))
ms = json.load(open('/root/.vp/MANIFEST.schema.json'))
es = json.load(open('/root/.vp/EVIDENCE.schema.json'))
m = json.load(open(os.path.join(H, 'MANIFEST.json')))
jsonschema.validate(m, ms)
print('MANIFEST ok:', len(m['checks']), 'checks')
bad = 0
for c in m['checks']:
    p = c['evidence_file']
    if not os.path.exists(p):
        print('missing', p); bad += 1; continue
    try:
        jsonschema.validate(json.load(open(p)), es)
    except jsonschema.ValidationError as e:
        print('INVALID', p, e.message); bad += 1
print('evidence ok' if not bad else f'{bad} evidence problems')
sys.exit(1 if bad else 0)
