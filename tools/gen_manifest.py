#!/usr/bin/env python3
"""Regenerate /verif/MANIFEST.json from the table below (keeps the manifest valid at all times)."""
import json
import os
import sys

HERE = os.path.dirname(os.path.dirname(os.path.abspath(__file__)))

COMMON_NOTE = (
    "Trusted base: /venv's CPython 3.12 / numpy / pandas; the explorer (acmc/) drives the real aquacrop package imported from "
    "/repo's working tree, so every explored trace is an implementation trace. The verdict covers exactly the stated alphabet "
    "and deviation bound (DESIGN.md 2.2, 2.3, 6); values between menu points are not covered."
)

CHECKS = {
    "C01": dict(
        text="Bounded exhaustive exploration of the real model: every configuration within d deviations of the water bases (21 at present, see ASBUILT.md) and every "
             "single/double-day weather deviation is executed to termination, and the daily ledger (1e-6 mm) and the carry-over / "
             "season-reset relation are evaluated on every transition. Mass conservation is a per-step invariant, so a per-transition "
             "oracle over an enumerated environment is the right level.",
        technique="explicit enumeration of environment words and configuration deviations on the implementation; per-transition ledger invariant",
        ref="3/C01",
    ),
    "C02": dict(
        text="Same exploration as C01 plus the complete surface sub-product (bunds x inhibited runoff x CN adjustment x antecedent-moisture "
             "adjustment x rain 0-300 mm x irrigation/efficiency x soil); P + eff*Irr = Infl + Runoff, the runoff/infiltration bounds and the "
             "dry-day clause are evaluated on every transition.",
        technique="explicit enumeration of surface configurations and weather deviations on the implementation; per-transition partition invariant",
        ref="3/C02",
    ),
    "C03": dict(
        text="C01's exploration plus extreme bases (3-season drought with off-season, SAT starts under storms, shallow tables, low-Ksat layers, "
             "bunds filled above their height); theta within [air-dry, saturation] per compartment, ponding within [0, bund height] and Wr >= 0 are "
             "state invariants evaluated on the initial state and after every transition.",
        technique="explicit enumeration of configurations/weather on the implementation; state invariant on every reached state",
        ref="3/C03",
    ),
    "C04": dict(
        text="C01's exploration plus all crops with CCx > 0.96 driven to full canopy, mulches and partial wetting; sign of every flux column, "
             "actual <= potential and off-season zeros are evaluated on every transition.",
        technique="explicit enumeration of configurations/weather on the implementation; per-transition flux invariants",
        ref="3/C04",
    ),
    "C05": dict(
        text="All 37 catalogue crops at full length under stress words, water-table menus and a restrictive layer, plus scaled crops with a deviating "
             "day at every day of the season; the crop envelope (CC, roots, HI, biomass, degree days, finiteness, off-season zeros) is evaluated "
             "on every state and consecutive pair with the season's own crop copy.",
        technique="explicit enumeration of crops x soils x weather words/deviations on the implementation; state and step invariants",
        ref="3/C05",
    ),
    "C06": dict(
        text="All 37 crops x 6 irrigation strategies x {normal, death-before-maturity} plus multi-season scaled runs and windows cut around "
             "maturity; daily biomass/yield identities are recomputed exactly on every in-season transition and the seasonal summary is compared "
             "with the daily tables (one row per harvest transition, values of the harvest step, irrigation = column sum) on every execution.",
        technique="explicit enumeration of crops x strategies x windows on the implementation; per-transition identities and per-execution summary/table relation",
        ref="3/C06",
    ),
    "C07": dict(
        text="Every window of a start/end/planting/length/off-season lattice, crop death forced on every day of the season, explicit latest-harvest dates, six "
             "stepping styles, a thermal crop and natural deaths are run on the real model; the executed trace (date, season, days after planting, in-season "
             "flag, harvest event, finished flag per transition) is compared element-wise with a reference calendar automaton (pure date arithmetic) and "
             "against direct trace invariants (each day once, chronological, row index = date, termination).",
        technique="exhaustive window/death-day/stepping-style enumeration on the implementation; conformance of every executed trace with a reference calendar automaton",
        ref="3/C07",
    ),
    "C08": dict(
        text="For every season k >= 1 of every enumerated multi-season configuration (6 strategies x initial water x bunds x table x words, scaled, thermal and "
             "full-length crops) the season's rows in all daily tables and its summary row are compared bitwise with a fresh single-season run started on that "
             "season's planting date: a differential oracle over the history 'seasons simulated before k'.",
        technique="exhaustive enumeration of configurations x season index; bitwise differential comparison of two implementation runs",
        ref="3/C08",
    ),
    "C09": dict(
        text="All 2^(n-1) compositions of the first n transitions into run_model calls (brute force) and an explicit-state search with deduplication on the "
             "canonical model state (every call size from every prefix state lands on the uninterrupted run's state), so that all call partitions of the "
             "window are covered by induction; unfinished/finished flags after every call and bitwise final tables.",
        technique="explicit-state search over API-call histories of the real model with canonical-state hashing; brute-force enumeration of all compositions",
        ref="3/C09",
    ),
    "C10": dict(
        text="Operation sequences (construct/init/run) of length <= 2 (quick) / 3 (thorough) over the configuration set touching every process-global (18 at present), each in its own "
             "fresh interpreter, under several hash seeds and pool sizes; oracle: table digest equals the configuration run alone, and a global-state monitor "
             "(module-level objects, class attributes, default-argument tuples, numpy error state) never changes, which closes the argument for histories of "
             "any length.",
        technique="exhaustive enumeration of operation sequences in fresh interpreters; digest equality and process-global state fix-point",
        ref="3/C10",
    ),
    "C11": dict(
        text="For configurations exercising every write into a user object during initialisation, all sequences of length 3 over {rerun, rebuild} are executed on "
             "the same user objects; no operation may raise and every run must reproduce the first run's tables bitwise; the canonical hash of the user objects "
             "reaches a fix-point after the first run, which extends the verdict to any number of earlier runs.",
        technique="exhaustive enumeration of rerun/rebuild histories on the implementation with user-object state hashing (fix-point closure)",
        ref="3/C11",
    ),
    "C12": dict(
        text="Content hashes of every profile array, soil scalar, the profile table, the four management structs, the water-table series, the weather matrix/table "
             "and the CO2 table are compared with their initial values after EVERY transition, over the (z_cn, z_germ) lattice incl. off-boundary depths, thickness "
             "lists, management/groundwater menus, thermal and deep-rooted crops; per-season crop copies may change only when their season starts.",
        technique="exhaustive configuration enumeration on the implementation; per-transition content-hash invariant over all parameter objects",
        ref="3/C12",
    ),
    "C13": dict(
        text="The complete irrigation sub-product (21 strategy settings x daily max x seasonal max x efficiency x initial water x words) is executed; the per-strategy "
             "contract is evaluated on every transition and the threshold/interval decision and amount are re-computed from the captured inputs/outputs of the "
             "real irrigation() call.",
        technique="exhaustive enumeration of the irrigation parameter product on the implementation; per-transition contract with decision re-computation",
        ref="3/C13",
    ),
    "C14": dict(
        text="Every cut day t of two-season runs x weather word replaced from t onwards: rows before t bitwise equal; all 37 crops with hundreds/thousands of "
             "foreign weather rows outside the window; end-date extensions leave completed seasons unchanged.",
        technique="exhaustive enumeration of cut days / perturbations; bitwise differential comparison of two implementation runs",
        ref="3/C14",
    ),
    "C15": dict(
        text="All 120 permutations of the required weather columns, extra columns (incl. name clashes), eight index kinds (incl. repeated labels), climate files read back through prepare_weather, and extra leading/trailing rows (alone in the quick tier, the "
             "full 9600-table product in the thorough tier) for a calendar and a thermal crop; tables bitwise equal to the canonical-table run.",
        technique="exhaustive enumeration of equivalent weather tables; bitwise differential comparison",
        ref="3/C15",
    ),
    "C16": dict(
        text="The catalogue product 37 crops x 15 soils x 6 strategies (pairwise in the quick tier, complete in the thorough tier) plus every single and pairwise "
             "deviation over 43 option switches and 10 window deviations around 6 bases; each run must terminate (watchdog), raise only documented rejections "
             "(type and origin) and report only finite numbers.",
        technique="exhaustive enumeration of the catalogue and option/window deviations on the implementation; termination, exception-origin and finiteness oracle",
        ref="3/C16",
    ),
    "C17": dict(
        text="The real stress/growth functions are evaluated on a dense argument lattice for all 37 crops: range invariants on every node, monotonicity on every "
             "edge between neighbouring nodes, inverse relation of the canopy curve, fCO2 through a real initialisation.",
        technique="exhaustive evaluation of the real functions on a finite argument lattice (nodes = points, edges = neighbours)",
        ref="3/C17",
    ),
    "C18": dict(
        text="Soils (15 built-ins, custom 1-3 layers, texture grid) x thickness lists x every catalogue Zmax x initial-water types/methods; each lattice point is one "
             "real initialisation compared with a reference builder (geometry, layer map, property ordering, required depth, theta at step 0).",
        technique="exhaustive enumeration of soil/initial-water configurations; conformance of every initialised profile with a reference builder",
        ref="3/C18",
    ),
    "C19": dict(
        text="Soils x (deep / deepened profiles) x 19 water-table settings (and other date notations) x crops x irrigation x words; adjusted field capacity range on every groundwater check, "
             "capillary-rise cap around every capillary_rise call, saturation below the table after every transition, z_gw against a reference interpolation, "
             "no-table zeros, and bitwise equality of (table at 50 m) with (no table).",
        technique="exhaustive configuration enumeration on the implementation; per-transition invariants with call capture, reference interpolation, differential pairs",
        ref="3/C19",
    ),
    "C20": dict(
        text="18 bases (incl. thermal-time crops and fallow-bund bases) x 24 neutral transformations alone and in pairs; all four tables bitwise equal to the base run.",
        technique="exhaustive enumeration of neutral transformations (singles and pairs); bitwise differential comparison",
        ref="3/C20",
    ),
}

NOT_YET = "check not built yet in this session (in progress; see DESIGN.md 3 for its design)"


def main():
    sys.path.insert(0, HERE)
    props = []
    with open(os.path.join(HERE, "properties.jsonl")) as f:
        for line in f:
            if line.strip():
                props.append(json.loads(line)["id"])
    checks = []
    na = []
    for pid in props:
        c = CHECKS.get(pid)
        if not c:
            na.append({"property_id": pid, "reason": NOT_YET})
            continue
        checks.append(
            {
                "property_id": pid,
                "quick_cmd": f"./check {pid} --tier quick",
                "thorough_cmd": f"./check {pid} --tier thorough",
                "evidence_file": f"/verif/evidence/{pid}.json",
                "replay_cmd_template": "./check --replay {path}",
                "engine": "acmc",
                "level_claimed": {"category": c.get("level", "model_checking"), "text": c["text"], "design_ref": f"DESIGN.md {c['ref']}"},
                "level_note": c.get("note", COMMON_NOTE),
                "technique": c["technique"],
            }
        )
    man = {
        "version": 1,
        "setup_cmd": "./check --selftest",
        "hooks": {
            "guard": "AQUACROP_VERIF",
            "enable": "no source hooks: checks import aquacrop from /repo's working tree (PYTHONPATH=/repo) and observe it through harness-side "
                      "pass-through wrappers bound in the time-step module namespace; AQUACROP_VERIF=1 is exported by ./check for completeness",
            "baseline_off_cmd": "cd /repo && /venv/bin/python -m pytest -ra -q -p no:cacheprovider --timeout=900 --continue-on-collection-errors",
            "source_commits": [],
            "add_only": True,
        },
        "engines": [
            {
                "name": "acmc",
                "path": "/verif/acmc",
                "serves_properties": [c["property_id"] for c in checks],
                "kind_free_text": "hand-written explicit-state / bounded-exhaustive explorer for the real Python implementation: enumerates "
                                  "environment words, configuration deviations and API-call histories, steps the real model one transition at a "
                                  "time, evaluates invariants / reference models / pairwise equalities on every state, transition or execution",
            }
        ],
        "checks": checks,
        "not_applicable": na,
        "notes": "See DESIGN.md. Known genuine defects that are recorded rather than repaired are in known_findings.json.",
    }
    with open(os.path.join(HERE, "MANIFEST.json"), "w") as f:
        json.dump(man, f, indent=1)
    print(f"MANIFEST.json: {len(checks)} checks, {len(na)} not claimed")


if __name__ == "__main__":
    main()
