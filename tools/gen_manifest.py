#!/usr/bin/env python3
"""Regenerate /verif/MANIFEST.json from the table below (keeps the manifest valid at all times)."""
import json
import os
import sys

HERE = os.path.dirname(os.path.dirname(os.path.abspath(__file__)))

COMMON_NOTE = (
    "Trusted base: /venv's CPython 3.12 / numpy / pandas; the explorer (acmc/) drives the real aquacrop package imported from "
    "/repo's working tree, so every explored trace is an implementation trace. The verdict covers exactly the stated alphabet "
    "and deviation bound (DESIGN.md 2.2, 2.3, 6); values between menu points are not covered."
)

CHECKS = {
    "C01": dict(
        text="Bounded exhaustive exploration of the real model: every configuration within d deviations of 10 water bases and every "
             "single/double-day weather deviation is executed to termination, and the daily ledger (1e-6 mm) and the carry-over / "
             "season-reset relation are evaluated on every transition. Mass conservation is a per-step invariant, so a per-transition "
             "oracle over an enumerated environment is the right level.",
        technique="explicit enumeration of environment words and configuration deviations on the implementation; per-transition ledger invariant",
        ref="3/C01",
    ),
    "C02": dict(
        text="Same exploration as C01 plus the complete surface sub-product (bunds x inhibited runoff x CN adjustment x antecedent-moisture "
             "adjustment x rain 0-300 mm x irrigation/efficiency x soil); P + eff*Irr = Infl + Runoff, the runoff/infiltration bounds and the "
             "dry-day clause are evaluated on every transition.",
        technique="explicit enumeration of surface configurations and weather deviations on the implementation; per-transition partition invariant",
        ref="3/C02",
    ),
    "C03": dict(
        text="C01's exploration plus extreme bases (3-season drought with off-season, SAT starts under storms, shallow tables, low-Ksat layers, "
             "bunds filled above their height); theta within [air-dry, saturation] per compartment, ponding within [0, bund height] and Wr >= 0 are "
             "state invariants evaluated on the initial state and after every transition.",
        technique="explicit enumeration of configurations/weather on the implementation; state invariant on every reached state",
        ref="3/C03",
    ),
    "C04": dict(
        text="C01's exploration plus all crops with CCx > 0.96 driven to full canopy, mulches and partial wetting; sign of every flux column, "
             "actual <= potential and off-season zeros are evaluated on every transition.",
        technique="explicit enumeration of configurations/weather on the implementation; per-transition flux invariants",
        ref="3/C04",
    ),
    "C05": dict(
        text="All 37 catalogue crops at full length under stress words, water-table menus and a restrictive layer, plus scaled crops with a deviating "
             "day at every day of the season; the crop envelope (CC, roots, HI, biomass, degree days, finiteness, off-season zeros) is evaluated "
             "on every state and consecutive pair with the season's own crop copy.",
        technique="explicit enumeration of crops x soils x weather words/deviations on the implementation; state and step invariants",
        ref="3/C05",
    ),
    "C06": dict(
        text="All 37 crops x 6 irrigation strategies x {normal, death-before-maturity} plus multi-season scaled runs and windows cut around "
             "maturity; daily biomass/yield identities are recomputed exactly on every in-season transition and the seasonal summary is compared "
             "with the daily tables (one row per harvest transition, values of the harvest step, irrigation = column sum) on every execution.",
        technique="explicit enumeration of crops x strategies x windows on the implementation; per-transition identities and per-execution summary/table relation",
        ref="3/C06",
    ),
}

NOT_YET = "check not built yet in this session (in progress; see DESIGN.md 3 for its design)"


def main():
    sys.path.insert(0, HERE)
    props = []
    with open(os.path.join(HERE, "properties.jsonl")) as f:
        for line in f:
            if line.strip():
                props.append(json.loads(line)["id"])
    checks = []
    na = []
    for pid in props:
        c = CHECKS.get(pid)
        if not c:
            na.append({"property_id": pid, "reason": NOT_YET})
            continue
        checks.append(
            {
                "property_id": pid,
                "quick_cmd": f"./check {pid} --tier quick",
                "thorough_cmd": f"./check {pid} --tier thorough",
                "evidence_file": f"/verif/evidence/{pid}.json",
                "replay_cmd_template": "./check --replay {path}",
                "engine": "acmc",
                "level_claimed": {"category": c.get("level", "model_checking"), "text": c["text"], "design_ref": f"DESIGN.md {c['ref']}"},
                "level_note": c.get("note", COMMON_NOTE),
                "technique": c["technique"],
            }
        )
    man = {
        "version": 1,
        "setup_cmd": "./check --selftest",
        "hooks": {
            "guard": "AQUACROP_VERIF",
            "enable": "no source hooks: checks import aquacrop from /repo's working tree (PYTHONPATH=/repo) and observe it through harness-side "
                      "pass-through wrappers bound in the time-step module namespace; AQUACROP_VERIF=1 is exported by ./check for completeness",
            "baseline_off_cmd": "cd /repo && /venv/bin/python -m pytest -ra -q -p no:cacheprovider --timeout=900 --continue-on-collection-errors",
            "source_commits": [],
            "add_only": True,
        },
        "engines": [
            {
                "name": "acmc",
                "path": "/verif/acmc",
                "serves_properties": [c["property_id"] for c in checks],
                "kind_free_text": "hand-written explicit-state / bounded-exhaustive explorer for the real Python implementation: enumerates "
                                  "environment words, configuration deviations and API-call histories, steps the real model one transition at a "
                                  "time, evaluates invariants / reference models / pairwise equalities on every state, transition or execution",
            }
        ],
        "checks": checks,
        "not_applicable": na,
        "notes": "See DESIGN.md. Known genuine defects that are recorded rather than repaired are in known_findings.json.",
    }
    with open(os.path.join(HERE, "MANIFEST.json"), "w") as f:
        json.dump(man, f, indent=1)
    print(f"MANIFEST.json: {len(checks)} checks, {len(na)} not claimed")


if __name__ == "__main__":
    main()
