#!/bin/bash
# Re-run all quick checks against every kept behaviour-preserving change (scratch worktree of /repo HEAD, removed afterwards).
cd /verif
for n in neutral/N*/; do
  id=$(basename $n); wt=/tmp/neutral_wt_$id
  git -C /repo worktree remove --force $wt 2>/dev/null
  git -C /repo worktree add -q --detach $wt HEAD || continue
  if git -C $wt apply --3way /verif/$n/patch.diff 2>/dev/null; then
     rm -f scratch/neutral_$(basename $wt).txt
     /venv/bin/python tools/neutral_test.py $wt "$@" > scratch/neutral_rerun_$id.log 2>&1
     cp scratch/neutral_$(basename $wt).txt $n/checks.txt
  else
     echo "$id: patch does not apply" > scratch/neutral_rerun_$id.log
  fi
  git -C /repo worktree remove --force $wt
done
grep -L "nothing" scratch/neutral_rerun_N*.log | xargs grep -l "rc=[1-9]\|does not apply" 2>/dev/null
echo done
