#!/usr/bin/env python3
"""newline-preserving exact replacement:  repl.py FILE  (reads OLD and NEW from a python file given as 2nd arg defining OLD, NEW lists)"""
import sys, runpy
path, script = sys.argv[1], sys.argv[2]
ns = runpy.run_path(script)
s = open(path, newline='').read()
nl = '\r\n' if '\r\n' in s else '\n'
for old, new in ns['PAIRS']:
    o = old.replace('\n', nl); n = new.replace('\n', nl)
    assert s.count(o) == 1, (s.count(o), old[:80])
    s = s.replace(o, n)
open(path, 'w', newline='').write(s)
print('patched', path)
