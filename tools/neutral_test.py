#!/usr/bin/env python3
"""Run all (or the given) quick checks against a worktree holding a behaviour-PRESERVING change; any VIOLATION / HARNESS-ERROR / non-zero
exit is a false alarm of the machinery.  usage: neutral_test.py <worktree> [Cxx ...]  -> appends to scratch/neutral_<name>.txt"""
import os, subprocess, sys
wt = os.path.abspath(sys.argv[1]); props = sys.argv[2:] or [f"C{i:02d}" for i in range(1, 21)]
out = open(f"/verif/scratch/neutral_{os.path.basename(wt)}.txt", "a")
for p in props:
    c = subprocess.run(["./check", p], cwd="/verif", env=dict(os.environ, ACMC_REPO=wt), capture_output=True, text=True)
    bad = [l[:260] for l in c.stdout.splitlines() if l.startswith(("VIOLATION", "HARNESS", "   clause"))] + [l[:260] for l in c.stderr.splitlines()[-3:] if c.returncode not in (0, 1)]
    line = f"{p} rc={c.returncode}" + ("" if not bad else "\n    " + "\n    ".join(bad[:6]))
    print(line); out.write(line + "\n"); out.flush()
