#!/usr/bin/env python3
"""Apply a seeded change to /repo, run the given checks (quick tier), revert.  usage: seedtest.py <patch.diff> C01 C05 ... [--tier thorough]"""
import os, subprocess, sys
patch = os.path.abspath(sys.argv[1])
args = sys.argv[2:]
tier = "quick"
if "--tier" in args:
    i = args.index("--tier"); tier = args[i + 1]; del args[i:i + 2]
props = args or [f"C{i:02d}" for i in range(1, 21)]
st = subprocess.run(["git", "-C", "/repo", "status", "--porcelain", "--untracked-files=no"], capture_output=True, text=True).stdout.strip()
if st:
    sys.exit("refusing: /repo has uncommitted changes:\n" + st)
env = dict(os.environ, ACMC_EVIDENCE_DIR="/verif/scratch/evidence_seed")
rc_all = {}
try:
    subprocess.run(["git", "-C", "/repo", "apply", patch], check=True)
    for p in props:
        r = subprocess.run(["./check", p, "--tier", tier], cwd="/verif", env=env, capture_output=True, text=True)
        viol = [l for l in r.stdout.splitlines() if l.startswith("VIOLATION") or l.startswith("   clause") or l.startswith("HARNESS")]
        rc_all[p] = r.returncode
        print(f"{p}: rc={r.returncode}")
        for l in viol[:6]:
            print("    " + l[:300])
finally:
    subprocess.run(["git", "-C", "/repo", "checkout", "--", "."], check=True)
print("SUMMARY", " ".join(f"{p}={rc}" for p, rc in rc_all.items()))
