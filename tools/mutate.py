#!/usr/bin/env python3
"""Self-written mutation wave (supplement to the sub-agent seeds): each mutation is applied to a scratch worktree, the 33 tests are
run (mutations the suite catches are discarded), then the targeted checks are run with ACMC_REPO=<worktree>.
usage: mutate.py [ids...]      results -> /verif/seeded/self_mutations.json"""
import json
import os
import subprocess
import sys

WT = "/tmp/mut"
M = [
    dict(id="M01", file="aquacrop/solution/drainage.py", targets=["C01"],
         what="excess above saturation is not pushed back up the profile (dropped)",
         old="        if excess > 0:\n            precomp = ii + 1\n", new="        if False and excess > 0:\n            precomp = ii + 1\n"),
    dict(id="M02", file="aquacrop/solution/infiltration.py", targets=["C03", "C01"],
         what="bund overtopping threshold doubled in the first clamp",
         old="                if NewCond_SurfaceStorage > FieldMngt_zBund:\n                    # Water overtops bunds and runs off\n                    RunoffIni = NewCond_SurfaceStorage - FieldMngt_zBund\n",
         new="                if NewCond_SurfaceStorage > 2 * FieldMngt_zBund:\n                    # Water overtops bunds and runs off\n                    RunoffIni = NewCond_SurfaceStorage - FieldMngt_zBund\n"),
    dict(id="M03", file="aquacrop/solution/transpiration.py", targets=["C03"],
         what="air-dry limit of root extraction removed",
         old="            if (InitCond_th[comp] - Sink) < prof.th_dry[comp]:\n", new="            if False and (InitCond_th[comp] - Sink) < prof.th_dry[comp]:\n"),
    dict(id="M04", file="aquacrop/timestep/reset_initial_conditions.py", targets=["C08", "C13", "C06"],
         what="seasonal irrigation counter not reset at season start",
         old="    InitCond.irr_cum = 0\n", new="    pass  # InitCond.irr_cum = 0\n"),
    dict(id="M05", file="aquacrop/solution/groundwater_inflow.py", targets=["C01"],
         what="groundwater inflow accumulated with the first compartment's thickness (the pilot's escapee)",
         old="                GwIn = GwIn + (dth * 1000 * prof.dz[ii])\n", new="                GwIn = GwIn + (dth * 1000 * prof.dz[0])\n"),
    dict(id="M06", file="aquacrop/solution/soil_evaporation.py", targets=["C20"],
         what="mulch reduction applied whether or not mulches are switched on",
         old="        if not FieldMngt_Mulches:\n            # No mulches present\n            EsPotMul = EsPot\n        elif FieldMngt_Mulches:\n",
         new="        if False:\n            # No mulches present\n            EsPotMul = EsPot\n        else:\n"),
    dict(id="M07", file="aquacrop/initialize/compute_variables.py", targets=["C12", "C08"],
         what="per-season crop copies share one object (no deepcopy)",
         old="            deepcopy(param_struct.CropList[0])\n            for i in range(len(param_struct.CropChoices))\n",
         new="            param_struct.CropList[0]\n            for i in range(len(param_struct.CropChoices))\n"),
    dict(id="M08", file="aquacrop/timestep/reset_initial_conditions.py", targets=["C12", "C14"],
         what="season-start degree-day clipping writes into the model's weather matrix (view instead of copy)",
         old="        weather_df = weather[\n            weather[:, 4] >= ClockStruct.planting_dates[ClockStruct.season_counter]\n        ]\n",
         new="        first = int(np.argmax(weather[:, 4] >= ClockStruct.planting_dates[ClockStruct.season_counter]))\n        weather_df = weather[first:]\n"),
    dict(id="M09", file="aquacrop/timestep/run_single_timestep.py", targets=["C06"],
         what="summary row rewritten on every day after the harvest (harvest-flag guard removed)",
         old="        ) and (NewCond.harvest_flag is False):\n\n            # Store final outputs\n", new="        ):\n\n            # Store final outputs\n"),
    dict(id="M10", file="aquacrop/solution/cc_development.py", targets=["C17", "C05"],
         what="growth curve no longer limited to CCx",
         old="        if canopy_cover > CCx:\n            canopy_cover = CCx\n", new="        if canopy_cover > 1.02 * CCx:\n            canopy_cover = 1.02 * CCx\n"),
    dict(id="M11", file="aquacrop/solution/drainage.py", targets=["C10", "C09"],
         what="scratch array of drainage hoisted to module scope (shared buffer between model instances)",
         old="    thnew = np.zeros(th_init.shape[0])\n",
         new="    global _THNEW\n    try:\n        _THNEW\n    except NameError:\n        _THNEW = None\n    if _THNEW is None or _THNEW.shape[0] != th_init.shape[0]:\n        _THNEW = np.zeros(th_init.shape[0])\n    thnew = _THNEW\n    thnew[:] = 0\n"),
    dict(id="M12", file="aquacrop/solution/capillary_rise.py", targets=["C01", "C19"],
         what="capillary rise stored in a compartment is not added to the reported total when the compartment fills up",
         old="                    NewCond.th[compi] = NewCond.th_fc_Adj[compi]\n                    CRcomp = dth * 1000 * prof.dz[compi]\n",
         new="                    NewCond.th[compi] = NewCond.th_fc_Adj[compi]\n                    CRcomp = 0.5 * dth * 1000 * prof.dz[compi]\n"),
    dict(id="M13", file="aquacrop/solution/irrigation.py", targets=["C13"],
         what="daily maximum applied before the efficiency adjustment in interval irrigation",
         old="                IrrReq = max(0, Dr)\n                # Adjust irrigation requirements for application efficiency\n                EffAdj = ((100 - IrrMngt_AppEff) + 100) / 100\n                IrrReq = IrrReq * EffAdj\n                # Limit irrigation to maximum depth\n                Irr = min(IrrMngt_MaxIrr, IrrReq)\n            else:\n                # No irrigation\n",
         new="                IrrReq = max(0, Dr)\n                # Adjust irrigation requirements for application efficiency\n                EffAdj = ((100 - IrrMngt_AppEff) + 100) / 100\n                # Limit irrigation to maximum depth\n                Irr = min(IrrMngt_MaxIrr, IrrReq) * EffAdj\n            else:\n                # No irrigation\n"),
    dict(id="M14", file="aquacrop/solution/HIref_current_day.py", targets=["C05"],
         what="reference harvest index no longer capped at HI0",
         old="            if NewCond_HIref > Crop.HI0:\n                NewCond_HIref = Crop.HI0\n", new="            if NewCond_HIref > 1.05 * Crop.HI0:\n                NewCond_HIref = 1.05 * Crop.HI0\n"),
    dict(id="M15", file="aquacrop/timestep/check_if_model_is_finished.py", targets=["C07", "C09"],
         what="run no longer stops at the last season's harvest when the off-season is simulated... (harvest exit needs season_counter == n_seasons)",
         old="    if (harvest_flag is True) and (season_counter == n_seasons - 1):\n", new="    if (harvest_flag is True) and (season_counter >= n_seasons):\n"),
]


def sh(cmd, **kw):
    return subprocess.run(cmd, capture_output=True, text=True, **kw)


def main():
    want = set(sys.argv[1:])
    if not os.path.isdir(WT):
        sh(["git", "-C", "/repo", "worktree", "add", "-q", "--detach", WT, "HEAD"])
    out_path = "/verif/seeded/self_mutations.json"
    results = json.load(open(out_path)) if os.path.exists(out_path) else {}
    env = dict(os.environ, PYTHONPATH=WT, PYTHONDONTWRITEBYTECODE="1")
    for m in M:
        if want and m["id"] not in want:
            continue
        sh(["git", "-C", WT, "checkout", "--", "."])
        path = os.path.join(WT, m["file"])
        s = open(path, newline="").read()
        nl = "\r\n" if "\r\n" in s else "\n"
        old, new = m["old"].replace("\n", nl), m["new"].replace("\n", nl)
        if s.count(old) != 1:
            print(m["id"], "PATTERN NOT FOUND / NOT UNIQUE", s.count(old))
            continue
        open(path, "w", newline="").write(s.replace(old, new))
        t = sh(["/venv/bin/python", "-m", "pytest", "-q", "-p", "no:cacheprovider", "-x", "tests"], cwd=WT, env=env)
        line = [l for l in t.stdout.splitlines() if " passed" in l or " failed" in l or "error" in l][-1:] or [t.stdout[-100:]]
        suite_ok = "failed" not in line[0] and "error" not in line[0] and "passed" in line[0]
        r = {"what": m["what"], "file": m["file"], "suite": line[0].strip(), "suite_passes": suite_ok, "checks": {}}
        if suite_ok:
            for p in m["targets"]:
                c = sh(["./check", p], cwd="/verif", env=dict(os.environ, ACMC_REPO=WT))
                clauses = sorted({l.split("clause=")[1].split(" ")[0] for l in c.stdout.splitlines() if "clause=" in l})
                r["checks"][p] = {"rc": c.returncode, "clauses": clauses[:4]}
        results[m["id"]] = r
        print(m["id"], r["suite"], {p: (v["rc"], v["clauses"]) for p, v in r["checks"].items()})
        json.dump(results, open(out_path, "w"), indent=1)
    sh(["git", "-C", WT, "checkout", "--", "."])
    sh(["git", "-C", "/repo", "worktree", "remove", "--force", WT])


if __name__ == "__main__":
    main()
