#!/usr/bin/env python3
"""Take a seeded change from a scratch worktree, confirm it (demo fails with / passes without, test-suite passes with), store it.
usage: seed_intake.py <worktree> <seed-id> <property> "<what it needs to manifest>" """
import json, os, shutil, subprocess, sys
wt, sid, prop, needs = sys.argv[1:5]
out = f"/verif/seeded/{sid}"
os.makedirs(out, exist_ok=True)
env = dict(os.environ, PYTHONPATH=wt, PYTHONDONTWRITEBYTECODE="1")
diff = subprocess.run(["git", "-C", wt, "diff", "--binary"], capture_output=True).stdout  # bytes: keep CRLF line endings
assert diff.strip(), "no change in worktree"
open(f"{out}/patch.diff", "wb").write(diff)
demos = [f for f in os.listdir(wt) if f.startswith("demo_") and f.endswith(".py")]
assert demos, "no demo"
demo = demos[0]
shutil.copy(f"{wt}/{demo}", f"{out}/{demo}")
def run_demo():
    r = subprocess.run(["/venv/bin/python", "-W", "ignore", demo], cwd=wt, env=env, capture_output=True, text=True, timeout=1800)
    return r.returncode, (r.stdout + r.stderr)[-600:]
with_rc, with_out = run_demo()
subprocess.run(["git", "-C", wt, "apply", "-R", f"{out}/patch.diff"], check=True)
try:
    wo_rc, wo_out = run_demo()
finally:
    subprocess.run(["git", "-C", wt, "apply", f"{out}/patch.diff"], check=True)
t = subprocess.run(["/venv/bin/python", "-m", "pytest", "-q", "-p", "no:cacheprovider", "tests"], cwd=wt, env=env, capture_output=True, text=True, timeout=1800)
tests = [l for l in t.stdout.splitlines() if " passed" in l or " failed" in l][-1:]
meta = {
    "seed": sid, "breaks_property": prop, "needs_to_manifest": needs,
    "confirmed": {"demo_with_change_rc": with_rc, "demo_without_change_rc": wo_rc, "test_suite_with_change": tests[0] if tests else t.stdout[-200:]},
    "demo": demo, "demo_output_with_change": with_out[-400:],
    "ran": [f"PYTHONPATH={wt} /venv/bin/python {demo} (with change, then after git stash)", f"cd {wt} && /venv/bin/python -m pytest -q -p no:cacheprovider tests"],
    "detected_by": None,
}
json.dump(meta, open(f"{out}/meta.json", "w"), indent=1)
print(json.dumps(meta["confirmed"]))
ok = with_rc == 1 and wo_rc == 0 and tests and "failed" not in tests[0]
print("CONFIRMED" if ok else "NOT CONFIRMED")
