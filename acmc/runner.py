"""Check runner: enumerates a property's scenarios, explores them all on a worker pool, applies the
replay-twice rule, matches known findings, writes replay files and the evidence file, sets the exit code."""
import hashlib
import importlib
import json
import multiprocessing as mp
import os
import subprocess
import sys
import time

from . import VERIF, REPO

PROPS = [f"C{i:02d}" for i in range(1, 21)]


def load_module(pid):
    return importlib.import_module(f"acmc.props.{pid.lower()}")


def scn_digest(scn):
    return hashlib.sha256(json.dumps(scn, sort_keys=True, default=str).encode()).hexdigest()[:16]


# ------------------------------------------------------------------------------------------
# worker side
# ------------------------------------------------------------------------------------------
_WORKER = {}


def _worker_init(pid):
    from . import ensure_repo_on_path

    ensure_repo_on_path()
    _WORKER["mod"] = load_module(pid)


def _worker_run(item):
    idx, scn = item
    mod = _WORKER["mod"]
    t0 = time.time()
    try:
        res = mod.run(scn)
    except BaseException as e:  # noqa: BLE001 -- a harness bug must not look like a property verdict
        if isinstance(e, (KeyboardInterrupt, SystemExit)):
            raise
        import traceback

        res = {"harness_error": "".join(traceback.format_exception(type(e), e, e.__traceback__))[-2000:]}
    res["idx"] = idx
    res["wall"] = time.time() - t0
    return res


def result_from_ctx(ctx, extra_abort_is_violation=None):
    """Standard result dict from a driver.Ctx."""
    return {
        "violations": ctx.violations,
        "witness": ctx.witness,
        "transitions": ctx.transitions,
        "states": b"".join(sorted(ctx.state_keys)),
        "evals": ctx.evals,
        "aborted": ctx.aborted,
        "notes": ctx.notes,
    }


def empty_result():
    return {"violations": [], "witness": {}, "transitions": 0, "states": b"", "evals": 0, "aborted": None, "notes": []}


def merge_result(dst, src):
    dst["violations"].extend(src.get("violations", []))
    for k, v in (src.get("witness") or {}).items():
        dst["witness"][k] = dst["witness"].get(k, 0) + v
    dst["transitions"] += src.get("transitions", 0)
    dst["states"] = dst["states"] + (src.get("states") or b"")
    dst["evals"] += src.get("evals", 0)
    if src.get("aborted") and not dst.get("aborted"):
        dst["aborted"] = src["aborted"]
    dst["notes"].extend(src.get("notes") or [])
    return dst


# ------------------------------------------------------------------------------------------
# known findings
# ------------------------------------------------------------------------------------------
def load_known():
    p = os.path.join(VERIF, "known_findings.json")
    if not os.path.exists(p):
        return {"findings": [], "fixed": []}
    with open(p) as f:
        return json.load(f)


def _match_value(cond, val):
    if isinstance(cond, dict):
        if "in" in cond:
            return val in cond["in"]
        if "contains" in cond:
            return isinstance(val, str) and cond["contains"] in val
        if "lt" in cond:
            return val is not None and val < cond["lt"]
        if "le" in cond:
            return val is not None and val <= cond["le"]
        if "gt" in cond:
            return val is not None and val > cond["gt"]
        if "ge" in cond:
            return val is not None and val >= cond["ge"]
        if "ne" in cond:
            return val != cond["ne"]
        return False
    return val == cond


def match_finding(pid, v, known):
    for f in known.get("findings", []):
        if f["property"] != pid:
            continue
        cl = f.get("clause")
        if cl is not None:
            if isinstance(cl, list):
                if v["clause"] not in cl:
                    continue
            elif v["clause"] != cl:
                continue
        facts = v.get("facts", {})
        ok = True
        for k, cond in (f.get("facts") or {}).items():
            if not _match_value(cond, facts.get(k)):
                ok = False
                break
        if ok:
            return f
    return None


# ------------------------------------------------------------------------------------------
# replay
# ------------------------------------------------------------------------------------------
def replay_file(path, quiet=False):
    """Re-execute a replay file without the explorer.  Returns (still_fails, observed_violation|None)."""
    from . import ensure_repo_on_path

    ensure_repo_on_path()
    with open(path) as f:
        rp = json.load(f)
    mod = load_module(rp["property"])
    res = mod.run(rp["scenario"])
    same = [v for v in res.get("violations", []) if v["clause"] == rp["clause"]]
    if same:
        # prefer the violation that reproduces the recorded observation exactly
        want = json.dumps(rp.get("observed"), sort_keys=True, default=str)
        for v in same:
            if json.dumps(json.loads(json.dumps(v.get("observed"), default=str)), sort_keys=True, default=str) == want and v.get("step") == rp.get("step"):
                return True, v
        return True, same[0]
    return False, None


def _fresh_process_replay(path):
    env = dict(os.environ)
    env["PYTHONDONTWRITEBYTECODE"] = "1"
    env.setdefault("PYTHONHASHSEED", "0")
    p = subprocess.run(
        [sys.executable, "-m", "acmc.cli", "--replay", path, "--json"],
        cwd=VERIF,
        env=env,
        capture_output=True,
        text=True,
        timeout=900,
    )
    for line in p.stdout.splitlines():
        if line.startswith("REPLAY-JSON "):
            return json.loads(line[len("REPLAY-JSON "):])
    return {"error": (p.stdout + p.stderr)[-1500:]}


# ------------------------------------------------------------------------------------------
# main entry for a check
# ------------------------------------------------------------------------------------------
def run_check(pid, tier="quick", seed=0, workers=None, limit=None, verbose=True):
    t0 = time.time()
    from . import ensure_repo_on_path

    ensure_repo_on_path()
    mod = load_module(pid)
    scns = list(mod.scenarios(tier, seed))
    if limit:
        scns = scns[:limit]
    total = len(scns)
    workers = workers or int(os.environ.get("ACMC_WORKERS", "0")) or min(16, os.cpu_count() or 4)
    known = load_known()

    agg = {
        "violations": [],  # (scn_idx, violation)
        "witness": {},
        "transitions": 0,
        "evals": 0,
        "aborted": [],
        "harness_errors": [],
        "nontrivial": 0,
        "executions": 0,
        "notes": {},
        "extra_states": 0,
    }
    states = set()
    seen_digests = set()
    nontrivial_digests = set()

    def absorb(res):
        idx = res["idx"]
        agg["executions"] += 1
        if res.get("harness_error"):
            agg["harness_errors"].append((idx, res["harness_error"]))
            return
        for v in res.get("violations", []):
            agg["violations"].append((idx, v))
        w = res.get("witness") or {}
        for k, n in w.items():
            agg["witness"][k] = agg["witness"].get(k, 0) + n
        agg["transitions"] += res.get("transitions", 0)
        agg["evals"] += res.get("evals", 0)
        agg["extra_states"] += int(res.get("n_nodes", 0) or 0)
        blob = res.get("states") or b""
        for i in range(0, len(blob), 8):
            states.add(blob[i:i + 8])
        if res.get("aborted"):
            agg["aborted"].append((idx, res["aborted"]))
        for n in res.get("notes") or []:
            agg["notes"][n] = agg["notes"].get(n, 0) + 1
        d = scn_digest(scns[idx])
        seen_digests.add(d)
        nt = getattr(mod, "NONTRIVIAL", None)
        if any(n > 0 and (nt is None or k in nt) for k, n in w.items()):
            nontrivial_digests.add(d)

    # rotate work order with the seed (no verdict depends on it)
    order = list(range(total))
    if total:
        r = seed % total
        order = order[r:] + order[:r]
    items = [(i, scns[i]) for i in order]

    if workers <= 1 or total <= 2:
        _worker_init(pid)
        for it in items:
            absorb(_worker_run(it))
    else:
        ctx = mp.get_context("fork")
        chunk = max(1, min(8, total // (workers * 8) or 1))
        with ctx.Pool(workers, initializer=_worker_init, initargs=(pid,)) as pool:
            for res in pool.imap_unordered(_worker_run, items, chunksize=chunk):
                absorb(res)

    # ---- classify violations ------------------------------------------------------------
    os.makedirs(os.path.join(VERIF, "replays", pid), exist_ok=True)
    known_hits = {}
    fresh = []
    for idx, v in agg["violations"]:
        f = match_finding(pid, v, known)
        if f is not None:
            e = known_hits.setdefault(f["id"], {"finding": f, "count": 0, "example": None})
            e["count"] += 1
            if e["example"] is None:
                e["example"] = (idx, v)
        else:
            fresh.append((idx, v))

    out_lines = []
    reported = []
    harness_nondet = []
    # group fresh violations by clause + signature facts, keep a few of each
    groups = {}
    for idx, v in fresh:
        key = (v["clause"], json.dumps(v.get("facts", {}).get("sig", None), sort_keys=True))
        groups.setdefault(key, []).append((idx, v))
    MAX_GROUPS, PER_GROUP = int(os.environ.get("ACMC_MAX_GROUPS", "12")), 1   # regression runs over many seeded changes ask for 1
    for gi, (key, lst) in enumerate(sorted(groups.items(), key=lambda kv: kv[0])):
        if gi >= MAX_GROUPS:
            break
        for idx, v in lst[:PER_GROUP]:
            scn = scns[idx]
            if hasattr(mod, "shrink"):
                try:
                    scn, v = _shrink(mod, scn, v)
                except Exception:  # noqa: BLE001
                    pass
            rp = {
                "property": pid,
                "clause": v["clause"],
                "scenario": scn,
                "step": v.get("step"),
                "observed": v.get("observed"),
                "expected": v.get("expected"),
                "facts": v.get("facts"),
            }
            name = scn_digest({"s": scn, "c": v["clause"]}) + ".json"
            path = os.path.join(VERIF, "replays", pid, name)
            with open(path, "w") as f:
                json.dump(rp, f, indent=1, sort_keys=True, default=str)
            # replay-twice rule: a fresh process must reproduce the identical observation
            rr = _fresh_process_replay(path)
            same_obs = json.dumps(rr.get("observed"), sort_keys=True, default=str) == json.dumps(json.loads(json.dumps(rp["observed"], default=str)), sort_keys=True, default=str)
            # a property whose violations are themselves non-deterministic (C10: results depending on recycled memory, hash seeds ...)
            # declares REPLAY_MATCH = "fails": the fresh process must violate the same clause on the same scenario, the observed digest
            # may differ
            loose = getattr(mod, "REPLAY_MATCH", "exact") == "fails" and rr.get("fails") and rr.get("clause", rp["clause"]) == rp["clause"]
            if rr.get("fails") and ((same_obs and rr.get("step") == rp["step"]) or loose):
                reported.append((path, v, len(lst)))
            else:
                harness_nondet.append((path, v, rr))

    level = getattr(mod, "LEVEL", "model_checking")
    desc = mod.describe(tier) if hasattr(mod, "describe") else {}
    samples = []
    for i in (0, total // 2, total - 1) if total else ():
        if scns[i] not in samples:
            samples.append(scns[i])
    coverage = {
        "states": len(states) + agg["extra_states"],
        "transitions": agg["transitions"],
        "traces_validated_against_impl": agg["executions"] - len(agg["harness_errors"]),
        "evaluations": agg["evals"] or agg["executions"],
        "distinct_nontrivial": len(nontrivial_digests),
        "distinct_scenarios": len(seen_digests),
        "rule": desc.get("rule", ""),
        "bound": desc.get("bound", ""),
        "exhaustive": bool(desc.get("exhaustive", True)),
        "samples": samples[:3],
        "witness_counts": dict(sorted(agg["witness"].items())),
        "aborted_executions": len(agg["aborted"]),
        "aborted_examples": [
            {"scenario_index": i, **{k: a.get(k) for k in ("exc_type", "exc_origin", "exc_msg", "phase")}}
            for i, a in agg["aborted"][:5]
        ],
        "known_findings_hit": {k: e["count"] for k, e in known_hits.items()},
        "harness_errors": len(agg["harness_errors"]),
        "notes": agg["notes"],
        "workers": workers,
    }
    if coverage["states"] < 1:
        coverage["states"] = 1
    if coverage["transitions"] < 1:
        # checks that explore function lattices / initialisations count evaluations as transitions
        coverage["transitions"] = max(1, coverage["evaluations"])
    ev = {
        "property_id": pid,
        "tier": tier,
        "seed": int(seed),
        "level": level,
        "coverage": coverage,
        "assumptions": desc.get("assumptions", []),
        "wall_s": round(time.time() - t0, 2),
        "violations": len(reported),
    }
    evdir = os.environ.get("ACMC_EVIDENCE_DIR") or (
        os.path.join(VERIF, "evidence") if os.path.realpath(REPO) == "/repo" else os.path.join(VERIF, "scratch", "evidence")
    )
    os.makedirs(evdir, exist_ok=True)
    with open(os.path.join(evdir, f"{pid}.json"), "w") as f:
        json.dump(ev, f, indent=1, sort_keys=True, default=str)

    # ---- report ---------------------------------------------------------------------------
    print(
        f"[{pid}] tier={tier} seed={seed} executions={agg['executions']} transitions={agg['transitions']} "
        f"states={len(states) + agg['extra_states']} evaluations={coverage['evaluations']} nontrivial={len(nontrivial_digests)} "
        f"aborted={len(agg['aborted'])} wall={ev['wall_s']}s"
    )
    if verbose:
        print(f"[{pid}] bound: {coverage['bound']}")
        print(f"[{pid}] witnesses: {coverage['witness_counts']}")
        missing = [w for w in desc.get("witnesses", []) if not agg["witness"].get(w)]
        if missing:
            print(f"[{pid}] WARNING: regimes never observed in this run (not a verdict): {missing}")
        if agg["aborted"]:
            kinds = {}
            for i, a in agg["aborted"]:
                k = f"{a.get('exc_type')}@{a.get('exc_origin')}"
                kinds[k] = kinds.get(k, 0) + 1
            print(f"[{pid}] aborted executions (counted, not a verdict unless the property says so): {kinds}")
    for fid, e in sorted(known_hits.items()):
        print(f"KNOWN-FINDING: property={pid} {fid}: {e['finding']['what']} ({e['count']} occurrence(s) in this run)")
    rc = 0
    for path, v, n in reported:
        print(f"VIOLATION property={pid} replay={path}")
        print(f"   clause={v['clause']} step={v.get('step')} observed={v.get('observed')} expected={v.get('expected')} (+{n - 1} similar)")
        rc = 1
    for path, v, rr in harness_nondet:
        print(f"HARNESS-ERROR nondeterministic replay for {path}: first={v.get('observed')} fresh={rr}")
        rc = 2
    for idx, he in agg["harness_errors"][:3]:
        print(f"HARNESS-ERROR in scenario {idx}: {he}")
        rc = 2
    # a check may name regimes without which its run is vacuous (a family that silently degraded to notes): never a silent pass
    req = [w for w in getattr(mod, "REQUIRED_WITNESSES", []) if not agg["witness"].get(w)]
    if req and not limit and rc == 0:
        print(f"HARNESS-ERROR vacuous exploration: required regime(s) never observed: {req}")
        rc = 2
    return rc


def _shrink(mod, scn, v):
    """Greedy minimisation: accept a simpler scenario while the same clause still fails."""
    cur, curv = scn, v
    for _ in range(4):
        progressed = False
        for cand in mod.shrink(cur):
            res = mod.run(cand)
            hit = [x for x in res.get("violations", []) if x["clause"] == curv["clause"]]
            if hit:
                cur, curv = cand, hit[0]
                progressed = True
                break
        if not progressed:
            break
    return cur, curv
