"""Finite menus for every environment choice, and the deviation-bounded enumerator.

A *config* is a dict  dimension -> menu key.  `to_spec(config)` turns it into a replayable JSON spec.
`within(base, menus, d)` enumerates every config that differs from `base` in at most d dimensions."""
import copy
import itertools

from . import spec as S

# ---------------------------------------------------------------------------------------------
# menus
# ---------------------------------------------------------------------------------------------
DZ = {
    "d12": None,  # Soil's default 12 x 0.1
    "nonuni": [0.05] * 4 + [0.1] * 6 + [0.2] * 5,  # 1.8 m, non-uniform: index slips change numbers
    "deep30": [0.1] * 30,  # never deepened
    "d15": [0.15] * 10,
    "d30": [0.3] * 5,
    "d15x9": [0.15] * 9,   # 1.35 m, few compartments (small arrays)
    "d15x20": [0.15] * 20,  # odd number of centimetres: compartment centres fall on half centimetres (never deepened: 3.0 m)
    "odd": [0.05] * 4 + [0.15] * 18,
    # lists that do NOT thicken with depth: refined around a layer interface at 0.6 m / a thick top compartment
    "refined": [0.1, 0.1, 0.2, 0.2] + [0.05] * 4 + [0.1] * 9,   # 1.7 m
    "thicktop": [0.3] + [0.1] * 14,                              # 1.7 m
    "thickbottom": [0.1] * 6 + [0.2] * 3 + [0.5, 0.8],   # 2.5 m, the two bottom compartments are thick: the deepest centre lies at 2.1 m
    "few8": [0.1] * 4 + [0.2] * 4,  # few compartments: deepening for a deep-rooted crop thickens even the top one
}

CUSTOM3 = {  # three layers, low-Ksat / penetrability-50 middle layer
    "type": "custom",
    "layers": [[0.3, 0.12, 0.26, 0.43, 600.0, 100], [0.3, 0.30, 0.44, 0.50, 4.0, 50], [2.4, 0.15, 0.31, 0.46, 300.0, 100]],
}
CUSTOM3U = {  # three contrasting layers whose boundaries are float-unlucky sums (0.3 + 0.6 = 0.8999..): a loamy-sand layer between two clays
    "type": "custom",
    "layers": [[0.3, 0.30, 0.44, 0.50, 40.0, 100], [0.6, 0.08, 0.16, 0.38, 1500.0, 100], [3.1, 0.23, 0.39, 0.52, 20.0, 100]],
}
CUSTOMTEX = {"type": "custom", "texture": [[0.4, 40, 20, 2.5, 100], [2.6, 20, 40, 1.5, 100]]}

TEX60 = {"type": "custom", "texture": [[0.5, 60, 20, 2.5, 100], [3.5, 55, 20, 2.5, 100]]}   # built from texture (pedotransfer function)
SHORT_LAYER = {"type": "custom", "layers": [[0.9, 0.10, 0.22, 0.41, 1200.0, 100]]}   # one layer thinner than the compartment list: the rest takes its values
SAND_OVER_CLAY = {"type": "custom", "layers": [[0.3, 0.06, 0.13, 0.36, 3000.0, 100], [3.7, 0.39, 0.54, 0.55, 35.0, 100]]}
CLAY_OVER_SAND = {"type": "custom", "layers": [[0.4, 0.39, 0.54, 0.55, 35.0, 100], [3.6, 0.06, 0.13, 0.36, 3000.0, 100]]}

LOAM_OVER_PAN = {"type": "custom", "layers": [[0.6, 0.10, 0.22, 0.41, 500.0, 100], [3.4, 0.30, 0.42, 0.52, 2.0, 100]]}   # perched water on a pan of 2 mm/day

SAME_FC = {"type": "custom", "layers": [[0.6, 0.09, 0.33, 0.43, 150.0, 100], [3.4, 0.13, 0.33, 0.46, 100.0, 100]]}   # silt over silt loam: equal field capacity, smaller saturation on top

SOILS = {
    "samefc": SAME_FC,
    "loamoverpan": LOAM_OVER_PAN,
    "sandoverclay": SAND_OVER_CLAY,
    "clayoversand": CLAY_OVER_SAND,
    "Sand": {"type": "Sand"},
    "SandyLoam": {"type": "SandyLoam"},
    "Clay": {"type": "Clay"},
    "ClayLoam": {"type": "ClayLoam"},
    "Loam": {"type": "Loam"},
    "Paddy": {"type": "Paddy"},
    "Tunis": {"type": "ac_TunisLocal"},
    "custom3": CUSTOM3,
    "custom3u": CUSTOM3U,
    "customtex": CUSTOMTEX,
    "tex60": TEX60,
    "shortlayer": SHORT_LAYER,
}

CROPS = {
    "maize.2": {"name": "Maize", "scale": 0.2},
    "maize.1": {"name": "Maize", "scale": 0.1},
    "cotton.2": {"name": "Cotton", "scale": 0.2},  # CCx 0.98
    "potato.2": {"name": "Potato", "scale": 0.2},  # transplanted, root/tuber
    "rice.2": {"name": "PaddyRice", "scale": 0.2},  # transplanted, Zmax .5
    "wheat.15": {"name": "Wheat", "scale": 0.15},
    "soybean.2": {"name": "Soybean", "scale": 0.2},
    "tomato.2": {"name": "Tomato", "scale": 0.2},
    "Maize": {"name": "Maize", "scale": None},
    "Wheat": {"name": "Wheat", "scale": None},
    "Potato": {"name": "Potato", "scale": None},
    "Cotton": {"name": "Cotton", "scale": None},
    "MaizeGDD": {"name": "MaizeGDD", "scale": None},
}

IRR = {
    "none": None,
    "rainfed0": {"method": 0, "kw": {}},
    "smt": {"method": 1, "kw": {"SMT": [80, 60, 40, 20]}},
    "smt100e70": {"method": 1, "kw": {"SMT": [100] * 4, "AppEff": 70}},
    "smt70max5": {"method": 1, "kw": {"SMT": [70] * 4, "MaxIrr": 5}},
    "smt_cap60": {"method": 1, "kw": {"SMT": [80] * 4, "MaxIrrSeason": 60}},
    "int3": {"method": 2, "kw": {"IrrInterval": 3}},
    "const40e90": {"method": 5, "kw": {"depth": 40, "AppEff": 90}},
    "const15max10": {"method": 5, "kw": {"depth": 15, "MaxIrr": 10}},          # the configured depth exceeds the daily maximum
    "smt_max6_season100": {"method": 1, "kw": {"SMT": [90] * 4, "MaxIrr": 6, "MaxIrrSeason": 100}},
    "sched_e90": {"method": 3, "kw": {"AppEff": 90}, "schedule": "inseason"},
    "int7e40": {"method": 2, "kw": {"IrrInterval": 7, "AppEff": 40}},
    "sched": {"method": 3, "kw": {}, "schedule": "inseason"},
    "sched_cap30": {"method": 3, "kw": {"MaxIrrSeason": 30}, "schedule": "inseason"},   # the seasonal allowance cuts off a scheduled event
    "sched_big": {"method": 3, "kw": {"MaxIrr": 500}, "schedule": "big"},
    "net80": {"method": 4, "kw": {"NetIrrSMT": 80}},
    "net50": {"method": 4, "kw": {"NetIrrSMT": 50}},
    "net100": {"method": 4, "kw": {"NetIrrSMT": 100}},
    "const8e70": {"method": 5, "kw": {"depth": 8, "AppEff": 70}},
    "const40e40": {"method": 5, "kw": {"depth": 40, "AppEff": 40, "MaxIrr": 100}},
    "smt_e72.5": {"method": 1, "kw": {"SMT": [80, 70, 60, 50], "AppEff": 72.5}},  # fractional percentages are valid
    "const8e87.75": {"method": 5, "kw": {"depth": 8, "AppEff": 87.75}},
    "int3e62.5": {"method": 2, "kw": {"IrrInterval": 3, "AppEff": 62.5, "WetSurf": 42.5}},
    "const8wet30": {"method": 5, "kw": {"depth": 8, "WetSurf": 30}},
}

FIELD = {
    "none": None,
    "bunds200": {"bunds": True, "z_bund": 0.2, "bund_water": 0},
    "bunds50w20": {"bunds": True, "z_bund": 0.05, "bund_water": 20},
    "bunds50w500": {"bunds": True, "z_bund": 0.05, "bund_water": 500},
    "mulch": {"mulches": True, "mulch_pct": 100, "f_mulch": 1.0},
    "mulch50": {"mulches": True, "mulch_pct": 50, "f_mulch": 0.5},
    "bunds_mulch": {"bunds": True, "z_bund": 0.15, "bund_water": 0, "mulches": True, "mulch_pct": 80, "f_mulch": 0.5},   # two features at once
    "srinhb": {"sr_inhb": True},
    "cn+20": {"curve_number_adj": True, "curve_number_adj_pct": 20},
    "cn-20": {"curve_number_adj": True, "curve_number_adj_pct": -20},
    # every feature switched OFF with non-neutral parameters parked behind the switches
    "parked": {"curve_number_adj": False, "curve_number_adj_pct": -30, "mulches": False, "mulch_pct": 60, "f_mulch": 0.7, "bunds": False, "z_bund": 0.2, "bund_water": 35},
}

GW = {
    "none": None,
    "0.3": {"method": "Constant", "dates": ["{start}"], "values": [0.3]},
    "0.8": {"method": "Constant", "dates": ["{start}"], "values": [0.8]},
    "1.5": {"method": "Constant", "dates": ["{start}"], "values": [1.5]},
    "2.5": {"method": "Constant", "dates": ["{start}"], "values": [2.5]},
    "1.47": {"method": "Constant", "dates": ["{start}"], "values": [1.47]},
    "2.15": {"method": "Constant", "dates": ["{start}"], "values": [2.15]},
    "2.27": {"method": "Constant", "dates": ["{start}"], "values": [2.27]},
    "6": {"method": "Constant", "dates": ["{start}"], "values": [6.0]},
    "50": {"method": "Constant", "dates": ["{start}"], "values": [50.0]},
    # series are placed relative to the simulation start: [offset_days, depth]
    "rising_c": {"method": "Constant", "series": [[0, 2.2], [12, 1.2], [22, 0.6]]},
    "rising_v": {"method": "Variable", "series": [[0, 2.4], [30, 0.5], [9999, 0.5]]},
    "falling_v": {"method": "Variable", "series": [[0, 0.4], [25, 2.6], [9999, 3.0]]},
    "falling_c": {"method": "Constant", "series": [[0, 0.5], [15, 1.4], [28, 2.8]]},
    "rising_c_late": {"method": "Constant", "series": [[0, 2.6], [60, 1.0], [80, 0.7]]},   # held observations rising above well-developed roots
    "rising_above_zmin_v": {"method": "Variable", "series": [[0, 1.6], [14, 0.18], [22, 0.18], [40, 1.6], [9999, 1.6]]},   # shallower than every crop's minimum rooting depth for a week
}

# expert-level soil options (Soil keyword arguments); "default" leaves the constructor defaults
SOILOPT = {
    "default": {},
    "evapz_fixed": {"evap_z_min": 0.15, "evap_z_max": 0.15},  # evaporation layer of fixed thickness
    "evapz_thin": {"evap_z_min": 0.05, "evap_z_max": 0.10},     # an evaporation layer shallower than the first compartment
    "evapz_wide": {"evap_z_min": 0.1, "evap_z_max": 0.4},
    "kex_fevap": {"kex": 1.25, "f_evap": 2, "f_wrel_exp": 0.6},
    "fwcc100": {"fwcc": 100},
    "rew_calc": {"adj_rew": 0, "calc_cn": 1},
    "cr_shape": {"fshape_cr": 4, "z_top": 0.2},
}

# crop keyword overrides (documented switches and a few parameters the water processes read)
CROPOPT = {
    "default": {},
    "ETadj0": {"ETadj": 0},
    "sown": {"PlantMethod": 1},
    "transplanted": {"PlantMethod": 0},
    "zmin.5": {"Zmin": 0.5},
    "aer15_lag1": {"Aer": 15, "LagAer": 1},
    "sxflat": {"SxTopQ": 0.02, "SxBotQ": 0.02},
    "kcb_fage": {"Kcb": 1.2, "fage": 1.0},
    "gddlo3": {"GDD_lo": 3.0, "GDD_up": 12.0},      # transpiration fully inhibited below 3 degree days (default 0)
    "polstress_bands": {"Tmin_up": 12.0, "Tmin_lo": 4.0, "Tmax_up": 38.0, "Tmax_lo": 44.0},
}

IWC_KINDS = ["WP", "FC", "SAT", "Pct50", "Depth", "DepthWetTop", "DepthDryTop"]

WINDOWS = {  # (start offset in days relative to first planting, n seasons, trailing days after last planting year's harvest)
    "w1": {"pre": 4, "seasons": 1},
    "w2": {"pre": 4, "seasons": 2},
    "w1s": {"pre": 0, "seasons": 1},
    "w3": {"pre": 2, "seasons": 3},
}

WATER_MENUS = {
    "soil": ["SandyLoam", "Sand", "Clay", "Paddy", "custom3", "ClayLoam", "sandoverclay", "clayoversand", "custom3u", "customtex", "tex60", "loamoverpan", "samefc"],
    "dz": ["d12", "nonuni", "deep30", "few8", "refined", "thicktop"],
    "iwc": IWC_KINDS,
    "irr": ["none", "smt", "smt100e70", "int3", "sched", "net80", "net50", "net100", "const8e70", "const40e40", "smt_cap60", "smt_e72.5", "const8e87.75", "int3e62.5"],
    "field": ["none", "bunds200", "bunds50w20", "bunds50w500", "mulch", "srinhb", "cn+20", "bunds_mulch"],
    "fallow": ["none", "bunds50w20", "mulch"],
    "gw": ["none", "0.3", "0.8", "1.5", "rising_v", "falling_c"],
    "off": [False, True],
    "crop": ["maize.2", "cotton.2", "potato.2", "rice.2"],
    "word": ["normal", "mix", "wet", "dry"],
    "win": ["w2", "w1"],
    "soilopt": list(SOILOPT),
    "cropopt": list(CROPOPT),
}


def within(base, menus, d, dims=None):
    """Every config that differs from `base` in at most d dimensions (menus: dim -> list of values)."""
    dims = list(dims or menus.keys())
    yield dict(base)
    for k in range(1, d + 1):
        for combo in itertools.combinations(dims, k):
            alts = [[v for v in menus[dim] if v != base[dim]] for dim in combo]
            for vals in itertools.product(*alts):
                c = dict(base)
                for dim, v in zip(combo, vals):
                    c[dim] = v
                yield c


# ---------------------------------------------------------------------------------------------
# config -> spec
# ---------------------------------------------------------------------------------------------
import datetime as _dt


def _d(s):
    return _dt.datetime.strptime(s, "%Y/%m/%d")


def _f(d):
    return d.strftime("%Y/%m/%d")


def crop_length_days(cs):
    """Calendar length (days) of a calendar-type crop spec; thermal crops: catalogue MaturityCD as an estimate."""
    from aquacrop.entities.crops.crop_params import crop_params

    if cs.get("scale"):
        return S.scaled_crop_kwargs(cs["name"], cs["scale"])["MaturityCD"]
    kw = cs.get("kw") or {}
    if "MaturityCD" in kw:
        return int(kw["MaturityCD"])
    p = crop_params[cs["name"]]
    return int(p["MaturityCD"] or 140)


def window_for(crop_spec, planting, win, year=2001, off=False):
    """Start/end dates for a window spec: `pre` days before the first planting date, `seasons` seasons."""
    w = WINDOWS[win] if isinstance(win, str) else win
    mm, dd = (int(x) for x in planting.split("/"))
    p0 = _dt.datetime(year, mm, dd)
    start = p0 - _dt.timedelta(days=w["pre"])
    L = crop_length_days(crop_spec)
    last_p = _dt.datetime(year + w["seasons"] - 1, mm, dd)
    end = last_p + _dt.timedelta(days=L + 30 + 12)
    return _f(start), _f(end)


def resolve_gw(g, start):
    if g is None:
        return None
    g = copy.deepcopy(g)
    s = _d(start)
    if "series" in g:
        dates, vals = [], []
        for off, depth in g.pop("series"):
            if off == 9999:
                d = s + _dt.timedelta(days=800)
            else:
                d = s + _dt.timedelta(days=off)
            dates.append(_f(d))
            vals.append(depth)
        g["dates"], g["values"] = dates, vals
    else:
        g["dates"] = [start if x == "{start}" else x for x in g["dates"]]
    return g


def resolve_irr(ir, planting_dates, length):
    if ir is None:
        return None
    ir = copy.deepcopy(ir)
    sch = ir.get("schedule")
    if isinstance(sch, str):
        out = []
        for p in planting_dates:
            if sch == "inseason":
                offs = [(2, 20.0), (9, 15.0), (max(10, length - 6), 30.0), (length + 20, 25.0), (-2, 10.0)]
            elif sch == "big":
                offs = [(3, 120.0), (11, 300.0)]
            elif sch == "daily":
                offs = [(i, 6.0) for i in range(-3, length + 6)]
            elif sch == "outside":
                offs = [(-3, 25.0), (length + 15, 25.0)]
            elif sch == "empty":
                offs = []
            elif sch == "beyond_window":
                # rows dated before the simulation start and after its end, around two in-season events
                offs = [(-400, 30.0), (-60, 17.0), (-50, 14.0), (-30, 22.0), (-7, 18.0), (3, 12.0), (max(5, length - 5), 9.0), (length + 500, 40.0), (length + 900, 40.0)]
            else:
                raise ValueError(sch)
            for o, dep in offs:
                out.append([_f(p + _dt.timedelta(days=o)), dep])
        out = sorted({d: x for d, x in out}.items())
        ir["schedule"] = [[d, x] for d, x in out]
    return ir


def to_spec(c, planting="05/01", year=2001):
    crop = dict(CROPS[c["crop"]])
    crop.setdefault("kw", {})
    crop["kw"] = {**crop["kw"], **CROPOPT[c.get("cropopt", "default")]}
    crop["planting"] = c.get("planting", planting)
    crop["harvest"] = None
    if c.get("harvest"):
        # a user-given latest harvest date, `harvest` days after planting (binds before maturity when shorter than the crop's length)
        mm0, dd0 = (int(x) for x in crop["planting"].split("/"))
        hd = _dt.datetime(2001, mm0, dd0) + _dt.timedelta(days=int(c["harvest"]))
        crop["harvest"] = f"{hd.month:02d}/{hd.day:02d}"
    soil = copy.deepcopy(SOILS[c["soil"]])
    soil["dz"] = DZ[c.get("dz", "d12")]
    soil.setdefault("kw", {})
    soil["kw"].update(SOILOPT[c.get("soilopt", "default")])
    soil["kw"].update(c.get("soilkw") or {})
    if soil["type"] == "ac_TunisLocal":
        soil["dz"] = None
    start, end = window_for(crop, crop["planting"], c.get("win", "w2"), year)
    nseas = (WINDOWS[c.get("win", "w2")] if isinstance(c.get("win", "w2"), str) else c["win"])["seasons"]
    mm, dd = (int(x) for x in crop["planting"].split("/"))
    pds = [_dt.datetime(year + i, mm, dd) for i in range(nseas)]
    L = crop_length_days(crop)
    wx = {"kind": "word", "word": c.get("word", "mix"), "dev": [list(x) for x in (c.get("dev") or [])], "lead": 0, "trail": 0}
    if c.get("from"):
        wx["from"] = list(c["from"])
    spec = {
        "crop": crop,
        "soil": soil,
        "iwc": S.iwc_for(soil, c.get("iwc", "FC")),
        "irr": resolve_irr(IRR[c.get("irr", "none")], pds, L),
        "field": copy.deepcopy(FIELD[c.get("field", "none")]),
        "fallow": copy.deepcopy(FIELD[c.get("fallow", "none")]),
        "gw": resolve_gw(GW[c.get("gw", "none")], start),
        "co2": None,
        "start": start,
        "end": end,
        "off_season": bool(c.get("off", False)),
        "weather": wx,
    }
    return spec


# ---------------------------------------------------------------------------------------------
# water bases (shared by C01-C04)
# ---------------------------------------------------------------------------------------------
def _b(**kw):
    base = {
        "soil": "SandyLoam",
        "dz": "d12",
        "iwc": "FC",
        "irr": "none",
        "field": "none",
        "fallow": "none",
        "gw": "none",
        "off": False,
        "crop": "maize.2",
        "word": "mix",
        "win": "w2",
        "soilopt": "default",
        "cropopt": "default",
    }
    base.update(kw)
    return base


WATER_BASES = [
    _b(),
    _b(soil="Sand", iwc="WP", irr="net80", word="dry", crop="cotton.2"),
    _b(soil="Clay", iwc="SAT", field="bunds50w20", word="wet", crop="rice.2", dz="nonuni"),
    _b(soil="Paddy", iwc="SAT", field="bunds200", fallow="bunds50w20", irr="const40e40", off=True, win="w1", crop="rice.2"),
    _b(soil="custom3", iwc="Pct50", irr="smt", word="normal", dz="nonuni", crop="potato.2"),
    _b(soil="SandyLoam", gw="0.8", iwc="FC", irr="none", dz="deep30", word="dry", crop="cotton.2"),
    _b(soil="Clay", gw="rising_v", iwc="WP", irr="net50", dz="deep30", word="normal"),
    _b(soil="ClayLoam", iwc="Depth", irr="int3", field="mulch", off=True, win="w1", word="normal"),
    _b(soil="Sand", iwc="FC", irr="sched", field="srinhb", word="wet", fallow="mulch"),
    _b(soil="custom3", iwc="SAT", irr="smt100e70", field="bunds50w500", word="mix", gw="1.5", dz="deep30", crop="potato.2"),
    # bunds in the fallow struct only, off-season simulated (otherwise ponding is reset at planting): the planting day is a bund-removal day with water still ponded from the pre-season days
    # (a run ends at the last harvest even with off_season=True, so post-harvest removal needs a following season: base 3)
    _b(soil="Clay", iwc="SAT", field="none", fallow="bunds50w20", off=True, win="w1", word="wet", crop="rice.2", irr="const40e40"),
    # net irrigation meeting a root zone that straddles its threshold on the first day of a season (pre-irrigation of a mixed profile):
    # from the initial profile, and from a simulated fallow whose showers wetted the top compartment only
    _b(soil="SandyLoam", iwc="DepthWetTop", irr="net80", word="dry", crop="maize.2", win="w1"),
    _b(soil="ClayLoam", iwc="Pct50", irr="net50", word="showers", crop="cotton.2", off=True, win="w2", dz="nonuni"),
    # bunds and mulches together on slowly draining soil with showers: shallow ponds that evaporation uses up within a day or two
    _b(soil="Paddy", iwc="SAT", field="bunds_mulch", word="showers", crop="rice.2", irr="none"),
    # a thin evaporation layer on a heavy soil: dry surface over a wet subsoil, showers smaller than the evaporative demand
    _b(soil="Clay", iwc="DepthDryTop", irr="none", word="drizzle", crop="maize.2", soilopt="evapz_thin", win="w2"),
    # chilly days (0 < degree days < a raised GDD_lo) under a developed canopy
    _b(soil="Loam", iwc="FC", irr="smt", word="chilly", crop="maize.2", cropopt="gddlo3"),
    # a soil built from texture, started at wilting point under drought (the surface compartments are dried to air dry)
    _b(soil="tex60", iwc="WP", irr="none", word="dry", crop="maize.2"),
    # three contrasting layers with float-unlucky boundaries under a shallow table (every compartment is driven to its own layer's limits)
    _b(soil="custom3u", iwc="Pct50", gw="0.8", dz="nonuni", word="dry", crop="cotton.2", irr="none"),
    # two layers with the SAME field capacity but different saturation, a table just below their interface
    _b(soil="samefc", iwc="Pct50", gw="0.8", dz="deep30", word="normal", crop="cotton.2", irr="none", win="w2"),
    # seasons ended by a user-given harvest date (before maturity) with water still ponded behind in-season bunds, off-season simulated
    # and unbunded: the harvest day is the bund-removal day
    _b(soil="Paddy", iwc="SAT", field="bunds200", fallow="none", irr="const40e40", off=True, win="w2", crop="rice.2", harvest=12, word="showers"),
    # perched water on a slowly draining pan under a thickness list refined around the layer interface (thicker compartments ABOVE thinner ones)
    _b(soil="loamoverpan", iwc="FC", dz="refined", word="wet", crop="maize.2", irr="none", win="w2"),
]


def weather_devs(spec, symbols=("S", "M", "D", "C"), stride=1, max_pos=None):
    """All single-day deviations (pos, sym) over the simulated days of the spec's window."""
    n = (_d(spec["end"]) - _d(spec["start"])).days + 1
    if max_pos is not None:
        n = min(n, max_pos)
    for pos in range(0, n, stride):
        for sym in symbols:
            yield (pos, sym)


def executed_positions(spec, crop_len, nseasons, pre):
    """Window day-indices that are actually simulated when the off-season is skipped (pre-season + seasons)."""
    s = _d(spec["start"])
    mm, dd = (int(x) for x in spec["crop"]["planting"].split("/"))
    pos = list(range(pre))
    for i in range(nseasons):
        p = _dt.datetime(s.year + (1 if (_dt.datetime(s.year, mm, dd) < s and pre == 0) else 0) + i, mm, dd)
        if pre > 0:
            p = _dt.datetime((s + _dt.timedelta(days=pre)).year + i, mm, dd)
        off = (p - s).days
        pos.extend(range(off, off + crop_len + 1))
    return pos


# ---------------------------------------------------------------------------------------------
# catalogue (full-length) scenarios
# ---------------------------------------------------------------------------------------------
def catalogue_names():
    from aquacrop.entities.crops.crop_params import crop_params

    return list(crop_params.keys())


def calendar_crop_names():
    from aquacrop.entities.crops.crop_params import crop_params

    return [k for k, v in crop_params.items() if v["CalendarType"] == 1]


def thermal_crop_names():
    from aquacrop.entities.crops.crop_params import crop_params

    return [k for k, v in crop_params.items() if v["CalendarType"] == 2]


def catalogue_spec(name, word="warm", soil="SandyLoam", irr="none", gw="none", iwc="FC", field="none", dz="d12",
                   planting="05/01", start="2001/05/01", end="2002/04/20", off=False, dev=None, frm=None, cropkw=None,
                   scale=None, soilkw=None, co2=None):
    crop = {"name": name, "planting": planting, "harvest": None, "scale": scale, "kw": dict(cropkw or {})}
    s = copy.deepcopy(SOILS[soil])
    s["dz"] = DZ[dz]
    s["kw"] = dict(soilkw or {})
    if s["type"] == "ac_TunisLocal":
        s["dz"] = None
    mm, dd = (int(x) for x in planting.split("/"))
    y0 = _d(start).year
    p0 = _dt.datetime(y0, mm, dd)
    if p0 < _d(start):
        p0 = _dt.datetime(y0 + 1, mm, dd)
    pds = [_dt.datetime(p0.year + i, mm, dd) for i in range(0, max(1, _d(end).year - p0.year + 1))]
    try:
        L = crop_length_days(crop)
    except Exception:  # noqa: BLE001
        L = 140
    wx = {"kind": "word", "word": word, "dev": [list(x) for x in (dev or [])], "lead": 0, "trail": 0}
    if frm:
        wx["from"] = list(frm)
    return {
        "crop": crop,
        "soil": s,
        "iwc": S.iwc_for(s, iwc),
        "irr": resolve_irr(IRR[irr], pds, L),
        "field": copy.deepcopy(FIELD[field]),
        "fallow": None,
        "gw": resolve_gw(GW[gw], start),
        "co2": co2,
        "start": start,
        "end": end,
        "off_season": bool(off),
        "weather": wx,
    }
