"""Fresh-interpreter worker for the history properties C10/C11: executes an operation sequence, prints digests as JSON.

stdin: {"ops": [[op, arg], ...], "globals": bool}
  ["construct", spec]   build entities + AquaCropModel, do not run
  ["init", spec]        ... and _initialize()
  ["run", spec]         ... and run_model(till_termination=True); digest of all four tables
  ["interleave", {"specs": [...], "chunks": [...]}]   live models stepped alternately; list of digests
  ["pool", {"specs": [...], "size": n}]   run the specs in a multiprocessing pool of n workers; list of digests
stdout: one line 'ISO-JSON {...}'"""
import hashlib
import inspect
import json
import sys
import types


def canon(v, depth=0):
    import numpy as np
    import pandas as pd

    if depth > 6:
        return "<deep>"
    if isinstance(v, dict):
        return {str(k): canon(x, depth + 1) for k, x in sorted(v.items(), key=lambda kv: str(kv[0]))}
    if isinstance(v, (list, tuple)):
        return [canon(x, depth + 1) for x in v]
    if isinstance(v, (set, frozenset)):
        return sorted(str(canon(x, depth + 1)) for x in v)
    if isinstance(v, np.ndarray):
        return ["ndarray", str(v.dtype), list(v.shape), hashlib.sha256(np.ascontiguousarray(v).tobytes()).hexdigest()[:12] if v.dtype != object else repr(v.tolist())]
    if isinstance(v, (pd.DataFrame, pd.Series)):
        return ["pandas", repr(v.to_dict())[:5000]]
    if isinstance(v, float):
        return repr(v)
    if isinstance(v, (int, str, bool, type(None))):
        return v
    if isinstance(v, (np.floating, np.integer, np.bool_)):
        return repr(v.item())
    if hasattr(v, "__dict__") and not isinstance(v, (types.ModuleType, type, types.FunctionType)):
        return [type(v).__name__, canon(vars(v), depth + 1)]
    return repr(v)[:200]


def global_state():
    """Canonical description of process-global state of the aquacrop package (+ numpy error state)."""
    import numpy as np

    out = {}
    for mname in sorted(sys.modules):
        if not (mname == "aquacrop" or mname.startswith("aquacrop.")):
            continue
        mod = sys.modules[mname]
        if mod is None:
            continue
        for attr in sorted(vars(mod)):
            if attr.startswith("__"):
                continue
            val = vars(mod)[attr]
            if isinstance(val, types.ModuleType):
                continue
            if isinstance(val, type):
                if getattr(val, "__module__", "").startswith("aquacrop"):
                    for ca in sorted(vars(val)):
                        cv = vars(val)[ca]
                        if ca.startswith("__") and ca not in ("__defaults__",):
                            continue
                        if callable(cv) or isinstance(cv, (property, staticmethod, classmethod)):
                            f = cv
                            if isinstance(cv, (staticmethod, classmethod)):
                                f = cv.__func__
                            if isinstance(f, types.FunctionType):
                                out[f"{mname}.{attr}.{ca}.__defaults__"] = canon([f.__defaults__, f.__kwdefaults__])
                            continue
                        out[f"{mname}.{attr}.{ca}"] = canon(cv)
                continue
            if isinstance(val, types.FunctionType):
                if getattr(val, "__module__", "").startswith("aquacrop"):
                    out[f"{mname}.{attr}.__defaults__"] = canon([val.__defaults__, val.__kwdefaults__])
                continue
            if callable(val):
                continue
            out[f"{mname}.{attr}"] = canon(val)
    out["numpy.geterr"] = canon(np.geterr())
    return out


def gs_hash(gs):
    return hashlib.sha256(json.dumps(gs, sort_keys=True, default=str).encode()).hexdigest()[:16]


def _pool_run(spec):
    from acmc.driver import run_plain, tables_digest

    t, a, _ = run_plain(spec)
    return tables_digest(t) if t is not None else {"aborted": a}


def main():
    req = json.load(sys.stdin)
    from acmc import ensure_repo_on_path

    ensure_repo_on_path()
    from acmc import spec as S
    from acmc.driver import tables, tables_digest, describe_exception

    want_g = req.get("globals", True)
    out = {"digests": [], "globals": [], "changed": [], "errors": []}
    g0 = global_state() if want_g else None
    if want_g:
        out["globals"].append(gs_hash(g0))
    keep = []
    for op, arg in req["ops"]:
        try:
            if op == "construct":
                keep.append(S.make_model(arg))
                out["digests"].append(None)
            elif op == "init":
                m = S.make_model(arg)
                m._initialize()
                keep.append(m)
                out["digests"].append(None)
            elif op == "run":
                m = S.make_model(arg)
                m.run_model(till_termination=True)
                keep.append(m)
                out["digests"].append(tables_digest(tables(m)))
            elif op == "interleave":
                # two (or more) live models stepped alternately in one process: [{specs: [...], chunks: [...]}]
                ms = [S.make_model(sp) for sp in arg["specs"]]
                for m in ms:
                    m._initialize()
                guard = 0
                while not all(m._clock_struct.model_is_finished for m in ms):
                    for m, k in zip(ms, arg["chunks"]):
                        if not m._clock_struct.model_is_finished:
                            m.run_model(num_steps=int(k), initialize_model=False)
                    guard += 1
                    if guard > 100000:
                        raise RuntimeError("interleaving does not terminate")
                keep.extend(ms)
                out["digests"].append([tables_digest(tables(m)) for m in ms])
            elif op == "pool":
                import multiprocessing as mp

                with mp.get_context("fork").Pool(arg["size"]) as pool:
                    out["digests"].append(pool.map(_pool_run, arg["specs"], chunksize=1))
            else:
                raise ValueError(op)
        except Exception as e:  # noqa: BLE001
            out["errors"].append({"op": op, **describe_exception(e)})
            out["digests"].append(None)
        if want_g:
            g = global_state()
            out["globals"].append(gs_hash(g))
            if g != g0:
                ch = sorted(k for k in set(g) | set(g0) if g.get(k) != g0.get(k))
                out["changed"].append({"after_op": len(out["digests"]) - 1, "keys": ch[:10]})
                g0 = g
    print("ISO-JSON " + json.dumps(out, default=str))


if __name__ == "__main__":
    main()
