"""Helpers for the pair-of-executions properties (bitwise comparison of output tables)."""
import numpy as np

from ..driver import first_diff, FX, GX, FLUX_COLS, GROWTH_COLS


def nan_safe(a):
    return np.nan_to_num(np.asarray(a, dtype=float), nan=-7.77e77, posinf=7.7e77, neginf=-7.6e77)


def executed_rows(tb):
    """Indices of rows that were executed (storage rows are all-zero for skipped days; executed rows carry theta > 0)."""
    st = tb["storage"]
    return np.where(np.abs(st[:, 3:]).sum(axis=1) != 0)[0]


def compare_tables(ta, tb, ignore_flux_cols=(), rows=None, what="tables"):
    """Bitwise comparison of the three daily tables (+ summary). Returns None or a description of the first difference."""
    for name in ("flux", "storage", "growth"):
        x, y = nan_safe(ta[name]), nan_safe(tb[name])
        if rows is not None:
            x, y = x[rows], y[rows]
        if name == "flux" and ignore_flux_cols:
            x, y = x.copy(), y.copy()
            for c in ignore_flux_cols:
                x[:, FX[c]] = 0
                y[:, FX[c]] = 0
        d = first_diff(x, y)
        if d is not None:
            if d[0] == "shape":
                return {"table": name, "shape_a": list(d[1]), "shape_b": list(d[2])}
            cols = FLUX_COLS if name == "flux" else (GROWTH_COLS if name == "growth" else None)
            col = cols[d[1]] if cols and d[1] < len(cols) else f"col{d[1]}"
            r = int(rows[d[0]]) if rows is not None else d[0]
            return {"table": name, "row": r, "col": col, "a": d[2], "b": d[3]}
    return None


def compare_summary(ta, tb):
    if ta["final"] != tb["final"] or ta["final_index"] != tb["final_index"]:
        def norm(f):
            return [[(x if isinstance(x, str) else (None if x != x else x)) for x in r] for r in f]
        if norm(ta["final"]) != norm(tb["final"]) or ta["final_index"] != tb["final_index"]:
            return {"table": "summary", "a": ta["final"], "b": tb["final"]}
    return None


def compare_all(ta, tb, **kw):
    d = compare_tables(ta, tb, **kw)
    if d is None:
        d = compare_summary(ta, tb)
    return d


def V(clause, step, observed, expected, **facts):
    from ..driver import _js

    facts.setdefault("sig", [clause])
    return {"clause": clause, "step": _js(step), "observed": _js(observed), "expected": _js(expected), "facts": {k: _js(v) for k, v in facts.items()}}


def table_state_keys(tb):
    """8-byte digests of the end-of-day states recorded in the daily tables (one per executed row), for state counting."""
    import hashlib

    rows = executed_rows(tb)
    fl, st, gr = (np.ascontiguousarray(nan_safe(tb[k])) for k in ("flux", "storage", "growth"))
    out = []
    for r in rows:
        h = hashlib.blake2b(digest_size=8)
        h.update(fl[r, 1:].tobytes())
        h.update(st[r, 1:].tobytes())
        h.update(gr[r, 1:].tobytes())
        out.append(h.digest())
    return b"".join(out), len(rows)
