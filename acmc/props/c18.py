"""C18 Soil profile and initial water content are built as specified -- DESIGN 3/C18."""
import copy
import itertools

import numpy as np

from .. import alphabets as A
from .. import spec as S
from ..driver import watchdog, Timeout, describe_exception
from ..runner import empty_result
from ._pairs import V
from .c16 import SOILS15

PID = "C18"
LEVEL = "model_checking"
WITNESSES = ["texture_layer_recomputed", "season_restart_checked", "deepened_profile", "not_deepened", "layered_soil", "texture_soil", "depth_interpolation", "thick_compartments_only", "non_uniform_thickness", "soil_object_reused", "independent_layer_map", "water_table_with_percentage_request"]
NONTRIVIAL = ["deepened_profile", "layered_soil", "texture_soil", "depth_interpolation", "thick_compartments_only", "non_uniform_thickness", "soil_object_reused"]

ZMAX = [0.5, 0.6, 1.0, 1.3, 1.5, 1.7, 1.8, 2.0, 2.3, 3.0]
DZS = ["d12", "nonuni", "d15", "d30", "deep30"]
CUSTOM = {
    "c1": {"type": "custom", "layers": [[4.0, 0.10, 0.25, 0.45, 800.0, 100]]},
    "c2": {"type": "custom", "layers": [[0.4, 0.12, 0.26, 0.43, 600.0, 100], [3.6, 0.30, 0.44, 0.50, 4.0, 60]]},
    "c3": A.CUSTOM3,
    # thin lower layers: the third layer is thinner than the depth reached by the layers above it
    "c3b": {"type": "custom", "layers": [[0.5, 0.12, 0.26, 0.43, 600.0, 100], [0.4, 0.30, 0.44, 0.50, 4.0, 100], [0.3, 0.06, 0.13, 0.36, 3000.0, 100]]},
    "c3c": {"type": "custom", "layers": [[0.4, 0.20, 0.35, 0.47, 120.0, 100], [0.4, 0.10, 0.22, 0.41, 1200.0, 80], [0.4, 0.32, 0.50, 0.54, 15.0, 100]]},
    "c3d": {"type": "custom", "layers": [[0.6, 0.15, 0.31, 0.46, 300.0, 100], [0.4, 0.39, 0.54, 0.55, 35.0, 100], [0.2, 0.12, 0.26, 0.43, 600.0, 100]]},
    # hard pans: a layer roots cannot enter (penetrability 0) above the crop's maximum rooting depth -- the profile must still reach Zmax
    "c2pan": {"type": "custom", "layers": [[0.5, 0.12, 0.26, 0.43, 600.0, 100], [3.5, 0.30, 0.44, 0.50, 4.0, 0]]},
    "c3pan": {"type": "custom", "layers": [[0.3, 0.10, 0.22, 0.41, 1200.0, 100], [0.2, 0.32, 0.50, 0.54, 2.0, 0], [3.5, 0.15, 0.31, 0.46, 300.0, 100]]},
    "c2t": {"type": "custom", "texture": [[0.7, 30, 30, 2.0, 100], [0.3, 60, 10, 1.0, 100]]},
}
from ..refmodels import BUILTIN_LAYERS, layer_thicknesses, reference_layer_map  # noqa: E402

IWCS = ["PropLayer", "PctLayer", "NumLayer", "PropDepth", "PctDepth", "NumDepth", "PropLayerRev", "PctLayerMixed", "PropDepthRev", "PctDepthMixed", "NumLayerMixed", "PropLayerDesc", "NumLayerDesc", "PctLayerDesc"]


def texture_soils():
    out = {}
    for sand, clay, om in itertools.product([10, 40, 70], [10, 30, 50], [1, 2.5, 4]):
        if sand + clay > 100:
            continue
        out[f"t{sand}_{clay}_{om}"] = {"type": "custom", "texture": [[0.5, sand, clay, om, 100], [3.5, max(5, sand - 5), clay, om, 80]]}
    # compacted / loosened layers: the public pedotransfer method with a density factor 0.9 .. 1.25
    for df in (0.9, 1.1, 1.25):
        out[f"t40_20_2.5_df{df}"] = {"type": "custom", "texture": [[0.5, 40, 20, 2.5, 100, df], [3.5, 30, 25, 1.5, 100, df]]}
    # the almost-pure-silt corner (sand + clay of a percent or less) and whole-number neighbours
    for sand, clay in ((0.6, 0.4), (0, 1), (0.5, 0.5), (1, 0), (1, 1), (2, 1)):
        out[f"t{sand}_{clay}_2_silt"] = {"type": "custom", "texture": [[0.5, sand, clay, 2.0, 100], [3.5, sand, clay, 1.0, 100]]}
    return out


def iwc_spec(kind, nlayers):
    layers = list(range(1, nlayers + 1))
    props = (["WP", "FC", "SAT"] * 3)[:nlayers]
    if kind == "PropLayer":
        return {"wc_type": "Prop", "method": "Layer", "depth_layer": layers, "value": props}
    if kind == "PctLayer":
        return {"wc_type": "Pct", "method": "Layer", "depth_layer": layers, "value": [30.0, 70.0, 100.0][:nlayers]}
    if kind == "NumLayer":
        return {"wc_type": "Num", "method": "Layer", "depth_layer": layers, "value": [0.21, 0.33, 0.27][:nlayers]}
    if kind == "PropDepth":
        return {"wc_type": "Prop", "method": "Depth", "depth_layer": [0.15, 0.7, 1.6], "value": ["WP", "FC", "SAT"]}
    if kind == "PctDepth":
        return {"wc_type": "Pct", "method": "Depth", "depth_layer": [0.2, 0.6, 1.0], "value": [30.0, 70.0, 100.0]}
    if kind == "NumDepth":
        return {"wc_type": "Num", "method": "Depth", "depth_layer": [0.0, 0.35, 2.2], "value": [0.18, 0.31, 0.24]}
    # other orders and mixed literal types of the value list (a container that takes its element type from one entry shows here)
    # layers listed in another order than 1, 2, 3 (each value belongs to the layer LABEL next to it)
    if kind == "PropLayerDesc":
        return {"wc_type": "Prop", "method": "Layer", "depth_layer": layers[::-1], "value": (["WP", "FC", "SAT"] * 3)[:nlayers]}
    if kind == "NumLayerDesc":
        return {"wc_type": "Num", "method": "Layer", "depth_layer": layers[::-1], "value": [0.21, 0.33, 0.27][:nlayers]}
    if kind == "PctLayerDesc":
        return {"wc_type": "Pct", "method": "Layer", "depth_layer": (layers[1:] + layers[:1]), "value": [30.0, 70.0, 100.0][:nlayers]}
    if kind == "PropLayerRev":
        return {"wc_type": "Prop", "method": "Layer", "depth_layer": layers, "value": (["SAT", "FC", "WP"] * 3)[:nlayers] if nlayers > 1 else ["SAT"]}
    if kind == "PctLayerMixed":
        return {"wc_type": "Pct", "method": "Layer", "depth_layer": layers, "value": [37.5, 60, 45][:nlayers]}
    if kind == "NumLayerMixed":
        return {"wc_type": "Num", "method": "Layer", "depth_layer": layers, "value": [0.255, 0.3, 0.21][:nlayers]}
    if kind == "PropDepthRev":
        return {"wc_type": "Prop", "method": "Depth", "depth_layer": [0.2, 1.0], "value": ["SAT", "WP"]}
    if kind == "PctDepthMixed":
        return {"wc_type": "Pct", "method": "Depth", "depth_layer": [0.1, 0.5, 1.4], "value": [12.5, 80, 50]}
    raise ValueError(kind)


def lattice_soils():
    out = {}
    for t1, t2 in itertools.product(range(1, 10), range(1, 10)):
        out[f"L3_{t1}_{t2}"] = {"type": "custom", "layers": [[t1 / 10.0, 0.30, 0.44, 0.50, 40.0, 100], [t2 / 10.0, 0.08, 0.16, 0.38, 1500.0, 100], [4.0, 0.23, 0.39, 0.52, 20.0, 100]]}
    return out


def all_soils(tier, lattice=True):
    soils = {n: {"type": n} for n in SOILS15}
    if lattice:
        soils.update(lattice_soils())
    soils.update(CUSTOM)
    tx = texture_soils()
    if tier == "quick":
        tx = dict([kv for i, kv in enumerate(tx.items()) if i % 4 == 0 or kv[0].endswith("_silt") or "_df" in kv[0]])
    soils.update(tx)
    return soils


def scenarios(tier, seed=0):
    soils = all_soils(tier, lattice=False)
    q = tier == "quick"
    for si, (sn, ss) in enumerate(soils.items()):
        for di, dz in enumerate(DZS):
            if ss["type"] == "ac_TunisLocal" and dz not in ("d12", "deep30"):   # the built-in soil brings its own grid; a list passed anyway is ignored
                continue
            for zi, z in enumerate(ZMAX):
                for ki, kind in enumerate(IWCS):
                    if q and (si + di + zi + ki) % 6 != 0:
                        continue
                    if not q and (si + di + zi + ki) % 2 != 0 and not sn.startswith("c") and zi not in (0, 9):
                        continue
                    yield {"soil": sn, "dz": dz, "zmax": z, "iwc": kind}
    # the complete lattice of the first two layer thicknesses (0.1 .. 0.9 m) of a three-layer soil: every float-unlucky boundary sum
    for t1, t2 in itertools.product(range(1, 10), range(1, 10)):
        if q and (t1 + t2) % 2:
            continue
        for dz in ("deep30", "nonuni", "d30", "d12"):
            yield {"soil": f"L3_{t1}_{t2}", "dz": dz, "zmax": 1.0, "iwc": "PropLayer"}
    # a water table below / inside the profile together with percentage and numeric specifications (the request is defined by the
    # layer's own wilting point and field capacity; only compartments above the table are compared - below it the model saturates)
    for sn in ("SandyLoam", "ClayLoam", "c2", "c3", "Paddy"):
        for dz in ("d12", "deep30"):
            for z in (0.6, 1.0, 2.3):
                for kind in ("PctLayer", "PctDepth", "NumLayer", "PctLayerMixed"):
                    for gw in (0.9, 1.8, 2.6):
                        if q and (ZMAX.index(z) if z in ZMAX else 0) % 2 and gw == 2.6:
                            continue
                        yield {"soil": sn, "dz": dz, "zmax": z, "iwc": kind, "gw": gw}
    # the requested content is what every later season starts from (off-season not simulated), whatever the field management
    for sn in ("SandyLoam", "c2", "c3", "Paddy"):
        for kind in ("PctLayer", "NumDepth", "PropLayer"):
            for fm in ("none", "bunds200", "mulch", "bunds_mulch"):
                yield {"soil": sn, "dz": "d12", "zmax": 1.0, "iwc": kind, "restart": fm}
    # a Soil object that an earlier model (with a shallower-rooted crop) has already initialised
    for si, (sn, ss) in enumerate(soils.items()):
        if ss["type"] == "ac_TunisLocal" or (q and si % 3):
            continue
        for dz in ("d12", "nonuni"):
            for z0, z in ((0.6, 2.3), (1.0, 1.7), (1.5, 3.0), (2.3, 1.0)):
                yield {"soil": sn, "dz": dz, "zmax": z, "iwc": "PctDepth", "first_zmax": z0}


def run(scn):
    from .. import ensure_repo_on_path

    ensure_repo_on_path()
    res = empty_result()
    wit = res["witness"]
    viol = res["violations"]

    def hit(k):
        wit[k] = 1

    def bad(clause, obs, exp, **f):
        if sum(1 for v in viol if v["clause"] == clause) < 2:
            viol.append(V(clause, None, obs, exp, soil=scn["soil"], dz=scn["dz"], zmax=scn["zmax"], iwc=scn["iwc"], sig=[clause], **f))

    ss = copy.deepcopy(all_soils("thorough")[scn["soil"]])
    ss["dz"] = A.DZ[scn["dz"]] if (ss["type"] != "ac_TunisLocal" or scn["dz"] == "deep30") else None
    ss.setdefault("kw", {})
    nl = S.soil_nlayers(ss)
    if scn.get("restart"):
        # three seasons with the off-season skipped: the model re-applies the requested initial content on every planting day
        spec = A.to_spec(A._b(crop="maize.2", win={"pre": 0, "seasons": 3}, word="wet", field=scn["restart"], irr="smt"))
    else:
        spec = A.to_spec(A._b(crop="maize.2", win="w1s", word="normal"))
    spec["soil"] = ss
    spec["crop"]["kw"] = {"Zmax": scn["zmax"], "Zmin": min(0.3, scn["zmax"])}
    spec["iwc"] = iwc_spec(scn["iwc"], nl)
    if scn.get("gw") is not None:
        spec["gw"] = {"method": "Constant", "dates": [spec["start"]], "values": [float(scn["gw"])]}
    # reference: the user's soil before any model touched it
    try:
        ref_soil = S.make_soil(ss)
    except Exception as e:  # noqa: BLE001 - building a valid soil raised: a finding about the code, not a harness error
        d = describe_exception(e)
        res["evals"] = 1
        res["aborted"] = d
        bad("initialisation-raises", {"exc": d["exc_type"], "origin": d["exc_origin"], "msg": d["exc_msg"][:160], "phase": "building the Soil object"}, "a valid soil can be built", exc_type=d["exc_type"], exc_origin=d["exc_origin"])
        return res
    ref_df = ref_soil.profile.ffill()
    user_dz = np.array(ref_df.dz.values, dtype=float)
    orig_dz = user_dz.copy()
    props = {}
    for _, r in ref_df.iterrows():
        props.setdefault(int(r.Layer), {k: float(r[k]) for k in ("th_dry", "th_wp", "th_fc", "th_s", "Ksat", "penetrability", "tau")})
    res["evals"] = 1
    thick = layer_thicknesses(ss)
    ind_lay = reference_layer_map(np.cumsum(np.round(orig_dz, 2)), thick) if thick else None
    if ind_lay is not None and set(range(1, nl + 1)) - set(int(x) for x in ind_lay):
        # premise: a layer thinner than the compartments at its depth holds no compartment at all - not a soil the model can represent
        res["notes"].append("premise-layer-without-compartment")
        return res
    try:
        with watchdog(40):
            if scn.get("first_zmax") is not None:
                # history: the user's Soil object was first used by a model whose crop roots to first_zmax
                ent = S.make_entities(spec)
                spec0 = copy.deepcopy(spec)
                spec0["crop"]["kw"]["Zmax"] = scn["first_zmax"]
                spec0["crop"]["kw"]["Zmin"] = min(0.3, scn["first_zmax"])
                ent0 = S.make_entities(spec0)
                ent0["soil"] = ent["soil"]
                m0 = S.make_model(spec0, ent0)
                m0._initialize()
                wit["soil_object_reused"] = 1
                # the reference for "deepening only grows compartments" is the profile the first model left behind
                user_dz = np.array(ent["soil"].profile.dz.values, dtype=float)
                m = S.make_model(spec, ent)
            else:
                m = S.make_model(spec)
            m._initialize()
    except Timeout as e:
        bad("profile-ends-below-zmax", {"timeout": str(e)}, "initialisation returns with a profile deeper than Zmax", hang=True)
        return res
    except Exception as e:  # noqa: BLE001
        d = describe_exception(e)
        res["aborted"] = d
        bad("initialisation-raises", {"exc": d["exc_type"], "origin": d["exc_origin"], "msg": d["exc_msg"][:160]}, "a valid soil initialises", exc_type=d["exc_type"], exc_origin=d["exc_origin"])
        return res
    res["transitions"] = 1
    prof = m._param_struct.Soil.Profile
    dz = np.asarray(prof.dz, dtype=float)
    n = len(dz)
    res["n_nodes"] = n
    bot = np.cumsum(dz)
    top = bot - dz
    mid = (top + bot) / 2
    # "deepened" = differs from the thicknesses the user specified (possibly by an earlier model that used the same Soil object)
    deepened = not (len(dz) == len(orig_dz) and np.allclose(dz, np.round(orig_dz, 2), atol=1e-9))
    hit("deepened_profile" if deepened else "not_deepened")
    if nl > 1:
        hit("layered_soil")
    if ss.get("texture"):
        hit("texture_soil")
        # the layers' hydraulic values against the published pedotransfer equations, recomputed here from the percentages the user gave
        # (the model rounds theta to 0.001 and Ksat to 0.1 mm/day)
        from ..refmodels import saxton_rawls

        for li, row in enumerate(ss["texture"]):
            if (li + 1) not in props:
                continue
            rwp, rfc, rs, rks = saxton_rawls(float(row[1]), float(row[2]), float(row[3]), float(row[5]) if len(row) > 5 else 1.0)
            got = props[li + 1]
            for k, rv, tol in (("th_wp", rwp, 6e-4), ("th_fc", rfc, 6e-4), ("th_s", rs, 6e-4), ("Ksat", rks, 0.06 + 1e-3 * abs(rks))):
                if not abs(float(got[k]) - rv) <= tol:
                    bad("texture-layer-follows-the-pedotransfer-function", {"layer": li + 1, "property": k, "value": float(got[k]), "sand_pct": row[1], "clay_pct": row[2], "om_pct": row[3]},
                        {"expected": rv, "tol": tol}, prop=k)
                    break
            hit("texture_layer_recomputed")
    if "Depth" in scn["iwc"]:
        hit("depth_interpolation")
    if user_dz.min() >= 0.25:
        hit("thick_compartments_only")
    if len(set(np.round(user_dz, 6))) > 1:
        hit("non_uniform_thickness")
    # ---- geometry ---------------------------------------------------------------------------------
    if not np.allclose(np.asarray(prof.dzsum, dtype=float), bot, atol=1e-9):
        bad("bottoms-are-running-sum", {"dzsum": np.asarray(prof.dzsum).tolist()[-3:], "cumsum": bot.tolist()[-3:]}, "dzsum = cumsum(dz)")
    for name, refv in (("zBot", bot), ("z_top", top), ("zMid", mid)):
        got = np.asarray(getattr(prof, name), dtype=float)
        if not np.allclose(got, refv, atol=1e-9):
            i = int(np.argmax(np.abs(got - refv) > 1e-9))
            bad("tops-mids-consistent-with-thickness", {"array": name, "comp": i, "value": float(got[i])}, {"expected": float(refv[i])}, array=name, deepened=deepened)
    if not deepened:
        if not np.allclose(dz, user_dz, atol=5e-3):
            bad("thickness-as-specified", dz.tolist(), user_dz.tolist())
    else:
        # deepening may only grow compartments, never shrink or drop them
        if len(dz) != len(user_dz) or (dz < np.round(user_dz, 2) - 1e-9).any():
            bad("deepening-only-grows-compartments", dz.tolist(), user_dz.tolist())
    if bot[-1] < scn["zmax"] + 0.1 - 1e-9:
        bad("profile-ends-below-zmax", {"depth": float(bot[-1])}, {"ge": scn["zmax"] + 0.1})
    # ---- layers and properties ------------------------------------------------------------------------
    lay = np.asarray(prof.Layer, dtype=int)
    if lay[0] != 1 or (np.diff(lay) < 0).any() or (np.diff(lay) > 1).any() or lay.max() > nl:
        bad("layers-contiguous-from-surface", lay.tolist(), f"1..{nl} non-decreasing without gaps")
    ref_lay = np.asarray(ref_df.Layer.values, dtype=int)
    if len(ref_lay) == len(lay) and (ref_lay != lay).any():
        bad("compartment-keeps-its-layer", lay.tolist(), ref_lay.tolist())
    if ind_lay is not None and len(orig_dz) == len(lay):
        hit("independent_layer_map")
        if (ind_lay != lay).any():
            bad("layers-as-specified", lay.tolist(), ind_lay.tolist())
        if ss.get("layers"):
            for i in range(n):
                L = ss["layers"][int(lay[i]) - 1] if 1 <= lay[i] <= len(ss["layers"]) else None
                if L is None:
                    continue
                got = [float(np.asarray(getattr(prof, a))[i]) for a in ("th_wp", "th_fc", "th_s", "Ksat", "Penetrability")]
                if any(abs(g - float(e)) > 1e-12 for g, e in zip(got, L[1:6])):
                    bad("compartment-carries-its-layer-properties", {"comp": i, "layer": int(lay[i]), "value": got}, {"expected": [float(x) for x in L[1:6]]})
                    break
    names = {"th_dry": "th_dry", "th_wp": "th_wp", "th_fc": "th_fc", "th_s": "th_s", "Ksat": "Ksat", "penetrability": "Penetrability", "tau": "tau"}
    for i in range(n):
        p = props.get(int(lay[i]))
        if p is None:
            continue
        for k, attr in names.items():
            v = float(np.asarray(getattr(prof, attr))[i])
            if abs(v - p[k]) > 1e-12:
                bad("compartment-carries-its-layer-properties", {"comp": i, "layer": int(lay[i]), "prop": k, "value": v}, {"expected": p[k]})
                break
    thd, thw, thf, ths, tau = (np.asarray(getattr(prof, a), dtype=float) for a in ("th_dry", "th_wp", "th_fc", "th_s", "tau"))
    if not ((thd < thw).all() and (thw < thf).all() and (thf <= ths).all()):
        bad("dry-lt-wp-lt-fc-le-sat", {"th_dry": thd[:2].tolist(), "th_wp": thw[:2].tolist(), "th_fc": thf[:2].tolist(), "th_s": ths[:2].tolist()}, "ordered")
    if not ((tau >= 0).all() and (tau <= 1).all()):
        bad("tau-in-0-1", tau.tolist(), "[0,1]")
    # ---- initial water content --------------------------------------------------------------------------
    th0 = np.asarray(m._init_cond.th, dtype=float)
    iw = spec["iwc"]
    kind = scn["iwc"]

    def layer_value(layer, v):
        p = props[int(layer)]
        if iw["wc_type"] == "Prop":
            return {"WP": p["th_wp"], "FC": p["th_fc"], "SAT": p["th_s"]}[v]
        if iw["wc_type"] == "Pct":
            return p["th_wp"] + (float(v) / 100.0) * (p["th_fc"] - p["th_wp"])
        return float(v)

    if iw["method"] == "Layer":
        by_label = {int(l): v for l, v in zip(iw["depth_layer"], iw["value"])}      # the value the user wrote next to each layer label
        exp = np.array([layer_value(lay[i], by_label[int(lay[i])]) for i in range(n)])
    else:
        depths = np.array(iw["depth_layer"], dtype=float)
        vals = []
        for dpt, v in zip(depths, iw["value"]):
            # the layer containing that depth (the last layer below the profile)
            j = int(np.searchsorted(bot, dpt, side="right"))
            layer = lay[min(j, n - 1)]
            vals.append(layer_value(layer, v))
        vals = np.array(vals, dtype=float)
        if depths[0] > 0:
            depths = np.append([0.0], depths)
            vals = np.append([vals[0]], vals)
        if depths[-1] < bot[-1]:
            depths = np.append(depths, [bot[-1]])
            vals = np.append(vals, [vals[-1]])
        exp = np.interp(mid, depths, vals)
    if scn.get("gw") is not None and th0.shape == exp.shape:
        hit("water_table_with_percentage_request")
        above = mid < float(scn["gw"]) - 1e-9
        th0 = np.where(above, th0, exp)      # compartments at / below the table are saturated by the model: not part of the request
    if th0.shape != exp.shape or not np.allclose(th0, exp, atol=1e-9):
        i = int(np.argmax(np.abs(th0 - exp))) if th0.shape == exp.shape else -1
        bad("initial-water-content-as-requested", {"comp": i, "th": float(th0[i]) if i >= 0 else None, "centre": float(mid[i]) if i >= 0 else None}, {"expected": float(exp[i]) if i >= 0 else None}, kind=kind)
        return res
    if scn.get("restart"):
        # step through the run: whenever the season counter moves on (the state has just been reset for the next planting day and that
        # day has not been simulated yet) the water content must again be the requested one
        try:
            with watchdog(120):
                last = int(m._clock_struct.season_counter)
                for _ in range(5000):
                    m.run_model(num_steps=1, initialize_model=False)
                    res["transitions"] += 1
                    if m._clock_struct.model_is_finished:
                        break
                    now = int(m._clock_struct.season_counter)
                    if now != last:
                        last = now
                        hit("season_restart_checked")
                        th1 = np.asarray(m._init_cond.th, dtype=float)
                        if th1.shape != exp.shape or not np.allclose(th1, exp, atol=1e-9):
                            i = int(np.argmax(np.abs(th1 - exp))) if th1.shape == exp.shape else -1
                            bad("initial-water-content-as-requested", {"at_the_start_of_season": now + 1, "comp": i, "th": float(th1[i]) if i >= 0 else None}, {"expected": float(exp[i]) if i >= 0 else None},
                                kind=kind, restart=True)
                            break
        except Timeout:
            res["notes"].append("restart stepping timed out")
        except Exception as e:  # noqa: BLE001
            d = describe_exception(e)
            res["aborted"] = d
    return res


def describe(tier):
    return {
        "rule": "15 built-in soils + custom 1-3-layer soils from hydraulic values + a texture grid (sand {10,40,70} x clay {10,30,50} x organic matter {1,2.5,4}, two layers) x five "
                "thickness lists (12x0.1; 4x0.05+6x0.1+5x0.2; 10x0.15; 5x0.3; 30x0.1) x every catalogue Zmax {0.5..3.0} x initial-water types {Prop,Pct,Num} x {Layer,Depth}"
                + (" (1/6 of the lattice in the quick tier)" if tier == "quick" else " (half of the lattice plus all extremes)") + "; plus Soil objects that an earlier model with a shallower- or deeper-rooted crop has already initialised; each instance is one real _initialize(); a reference builder recomputes "
                "bottoms/tops/mid-depths from the thicknesses, the layer map from the untouched user soil, the ordering of the hydraulic properties, the required depth, and theta at step 0.",
        "bound": "lattice at the stated resolution; one initialisation per lattice point",
        "exhaustive": True,
        "witnesses": WITNESSES,
        "assumptions": ["no water table in these scenarios (C19 covers the adjusted field capacity)", "thicknesses are compared after the model's rounding to 0.01 m"],
    }
