"""C02 Rain and irrigation are fully partitioned at the surface -- DESIGN 3/C02."""
import itertools

from . import _water as W
from .. import alphabets as A
from ..monitors.water import C02Partition

PID = "C02"
LEVEL = "model_checking"
WITNESSES = ["curve_number_runoff_day", "ksat_limited_day", "bund_overtopping_day", "bund_removal_day", "ponded_day",
             "irrigated_day", "storm_day", "irrigation_only_runoff_day"]

# effective CN <= 100: +20 % only on soils with CN <= 77 (all built-ins) -- 77*1.2 = 92.4
SURF_FIELD = {
    "off": {},
    "b50": {"bunds": True, "z_bund": 0.05, "bund_water": 0},
    "b200": {"bunds": True, "z_bund": 0.2, "bund_water": 30},
}


def surface_product(tier):
    """The complete surface sub-product (DESIGN C02): short runs with the deviating rain day in season."""
    rains = ["N", "R", "M", "S"]
    irrs = ["none", "const8e70", "const40e40"]
    soils = ["Sand", "Clay", "Paddy"]
    cnadj = [(False, 0), (True, -20), (True, 20), (False, 20), (True, 0.8), (True, -0.5)]   # incl. percentages smaller than 1 %
    for bund, srinhb, adjcn, (cnflag, cnpct), rain, irr, soil, season_only in itertools.product(
        ["off", "b50", "b200"], [False, True], [0, 1], cnadj, rains, irrs, soils, [False, True]
    ):
        if season_only and bund == "off":
            continue
        fm = dict(SURF_FIELD[bund])
        if srinhb:
            fm["sr_inhb"] = True
        fm["curve_number_adj"] = cnflag
        fm["curve_number_adj_pct"] = cnpct
        c = A._b(soil=soil, irr=irr, crop="maize.1", win="w1", word="normal", off=True, iwc="FC")
        c["dev"] = [[9, rain], [10, rain]]
        c["soilkw"] = {"adj_cn": adjcn}
        spec = A.to_spec(c)
        spec["field"] = fm
        # "season only": bunds in the season struct, none in the fallow struct (removal day after harvest);
        # otherwise the same struct on both sides
        spec["fallow"] = None if season_only else dict(fm)
        spec["end"] = A._f(A._d(spec["start"]) + __import__("datetime").timedelta(days=26))
        yield {"kind": "spec", "spec": spec, "label": {"surface": [bund, srinhb, adjcn, cnflag, cnpct, rain, irr, soil, season_only]}}

NONTRIVIAL = ['curve_number_runoff_day', 'ksat_limited_day', 'bund_overtopping_day', 'bund_removal_day', 'irrigation_only_runoff_day', 'storm_day']


def scenarios(tier, seed=0):
    menus = dict(A.WATER_MENUS)
    yield from W.water_scenarios(tier, menus=menus, full=(tier != "quick"))
    prod = list(surface_product(tier))
    if tier == "quick":
        # every third point, plus every point with a sub-1 % curve-number adjustment on an unbunded field
        prod = [x for i, x in enumerate(prod) if i % 3 == 0 or (abs(x["label"]["surface"][4]) < 1 and x["label"]["surface"][3] and x["label"]["surface"][0] == "off" and not x["label"]["surface"][1])]
    yield from prod


def run(scn):
    return W.run_with(scn, C02Partition, PID)


shrink = W.shrink_config


def describe(tier):
    d = 1 if tier == "quick" else 2
    return {
        "rule": "C01's configuration/weather set (effective CN <= 100) plus the surface sub-product {bunds off/50 mm/200 mm, same or "
                "season-only} x sr_inhb x adj_cn x CN-adjustment (flag,pct) x rain symbol {0,12,45,300 mm} x irrigation {none, 8 mm@70%, "
                "40 mm@40%} x soil {Sand, Clay, Paddy}" + (" (every 3rd point in the quick tier)" if tier == "quick" else " (complete)")
                + "; partition equality, runoff/infiltration bounds and the dry-day clause are evaluated on every transition. "
                "Non-trivial = at least one surface regime witness hit.",
        "bound": f"config deviations d<={d}; weather deviations <= {1 if tier == 'quick' else 2} days; surface sub-product "
                 + ("1/3 lattice" if tier == "quick" else "complete"),
        "exhaustive": True,
        "witnesses": WITNESSES,
        "assumptions": ["rain is the value the configured weather table holds for the date (by column name); irrigation from the IrrDay column",
                        "tolerance 1e-6 mm"],
    }
