"""C05 Crop state stays inside its configured envelope -- DESIGN 3/C05."""
from .. import alphabets as A
from .. import spec as S
from ..driver import execute
from ..monitors.crop import C05Envelope
from ..runner import result_from_ctx
from ._water import scenario_facts

PID = "C05"
LEVEL = "model_checking"
WITNESSES = ["cc_at_ccx_day", "hiadj_above_hi0_day", "yield_formation_day", "zroot_at_zmax_day", "cold_day_gdd0",
             "hot_day_gdd_max", "thermal_crop_day", "table_present_day", "table_above_zmax_day", "root_pushed_up_by_table",
             "early_canopy_decline_day", "off_season_row", "fallow_after_death_row"]
NONTRIVIAL = ["hiadj_above_hi0_day", "zroot_at_zmax_day", "cold_day_gdd0", "hot_day_gdd_max", "table_above_zmax_day",
              "root_pushed_up_by_table", "early_canopy_decline_day"]

for _x in (0.5, 0.9, 1.4):
    A.SOILS.setdefault(f"restr{_x}", {"type": "custom", "layers": [[_x, 0.15, 0.30, 0.45, 500.0, 100], [4.0 - _x, 0.20, 0.35, 0.47, 100.0, 30]]})

STRESS_WORDS = {
    "normal": dict(word="normal"),
    "warm": dict(word="warm"),
    "dry": dict(word="warm", frm=[25, "D"]),                 # drought from day 25 on: early senescence / death
    "wetsat": dict(word="wet", iwc="SAT"),                   # waterlogging
    "coldblock": dict(word="warm", frm=None, dev=[[d, "C"] for d in range(55, 75)]),   # cold around flowering
    "heatblock": dict(word="warm", dev=[[d, "H"] for d in range(55, 80)]),
}


def scenarios(tier, seed=0):
    names = A.catalogue_names()
    soils = ["SandyLoam", "ClayLoam"] if tier == "quick" else ["SandyLoam", "ClayLoam", "custom3", "Paddy"]
    words = ["warm", "dry"] if tier == "quick" else list(STRESS_WORDS)
    for name in names:
        for si, soil in enumerate(soils):
            for wi, w in enumerate(words):
                if tier == "quick" and (si + wi) % 2 == 1:
                    continue
                kw = dict(STRESS_WORDS[w])
                spec = A.catalogue_spec(name, soil=soil, **kw)
                yield {"kind": "spec", "spec": spec, "label": ["catalogue", name, soil, w]}
    # groundwater (table rising above the root tip) and irrigation, on a subset of crops / all crops in thorough
    gws = ["0.8", "rising_v", "rising_c_late"] if tier == "quick" else ["0.8", "1.5", "rising_v", "rising_c", "falling_v", "rising_c_late"]
    sub = names if tier != "quick" else ["Maize", "Wheat", "Potato", "Cotton", "MaizeGDD", "SugarBeetGDD", "Tomato", "PaddyRice"]
    for name in sub:
        for gw in gws:
            for irr in (["none"] if tier == "quick" else ["none", "smt"]):
                spec = A.catalogue_spec(name, soil="SandyLoam", gw=gw, dz="deep30", word="warm", irr=irr)
                yield {"kind": "spec", "spec": spec, "label": ["gw", name, gw, irr]}
    # a table just above the maximum rooting depth and below the centre of the deepest compartment (default list deepened for the crop /
    # a list with thick bottom compartments), crop watered well enough to root that deep
    for name, gw, dz in (("Maize", "2.27", "d12"), ("Maize", "2.15", "thickbottom"), ("Wheat", "1.47", "d12"), ("Cotton", "2.15", "thickbottom"), ("Maize", "1.5", "thickbottom")):
        spec = A.catalogue_spec(name, soil="SandyLoam", gw=gw, dz=dz, word="warm", irr="smt")
        yield {"kind": "spec", "spec": spec, "label": ["table-near-zmax", name, gw, dz]}
    # full-year crops harvested on the planting date: consecutive seasons WITHOUT a fallow day in between, off-season simulated or not,
    # kept alive by irrigation (first season in a non-leap year / across 29 February)
    for name in ("SugarCane", "Cassava"):
        for off, start, end in ((True, "2001/05/01", "2003/05/10"), (False, "2001/05/01", "2003/05/10"), (True, "2003/05/01", "2005/05/10")):
            spec = A.catalogue_spec(name, soil="ClayLoam", word="warm", irr="smt", off=off, start=start, end=end)
            spec["crop"]["harvest"] = "05/01"
            yield {"kind": "spec", "spec": spec, "label": ["full-year-back-to-back", name, off, start]}
    # off-season rows (simulated fallow after harvest and before planting)
    for name in sub:
        spec = A.catalogue_spec(name, soil="SandyLoam", word="warm", off=True, start="2001/04/20", end="2001/12/30")
        yield {"kind": "spec", "spec": spec, "label": ["offseason", name]}
    # capacity-limited deficit irrigation (mild, sustained stress before and after flowering: both harvest-index multipliers active)
    for name in (names if tier != "quick" else [n for n in names if n in ("Cotton", "CottonGDD", "Sorghum", "SorghumGDD", "Wheat", "Sunflower", "Soybean", "Quinoa", "DryBean", "Tomato")]):
        for smt in (10, 20, 30):
            for word in (("warm", "normal") if tier != "quick" else ("warm",)):
                spec = A.catalogue_spec(name, soil="SandyLoam", word=word, iwc="FC")
                spec["irr"] = {"method": 1, "kw": {"SMT": [smt] * 4, "MaxIrr": 5}}
                yield {"kind": "spec", "spec": spec, "label": ["deficit", name, smt, word]}
    # the recorded Tunis climate at full length (gradual drying of a real season: weeks between the stress thresholds, which the
    # synthetic words do not produce): rainfed 1979-85 from two planting dates, and capacity-limited deficit irrigation
    real = names if tier != "quick" else [n for n in names if n in ("Cotton", "CottonGDD", "Sorghum", "SorghumGDD", "Wheat", "Maize", "Sunflower", "Soybean", "Tomato", "Potato")]
    for name in real:
        for soil in ("Clay", "SandyLoam"):
            for planting in ("04/15", "05/20"):
                spec = S.base_spec(crop={"name": name, "planting": planting, "harvest": None, "scale": None, "kw": {}}, soil={"type": soil, "dz": None, "kw": {}},
                                   start="1979/01/01", end="1985/12/31" if tier != "quick" else "1982/12/31", weather={"kind": "file", "name": "tunis_climate.txt"})
                spec["iwc"] = S.iwc_for(spec["soil"], "FC")
                yield {"kind": "spec", "spec": spec, "label": ["tunis-rainfed", name, soil, planting]}
            for smt in ((10, 30) if tier == "quick" else (10, 20, 30)):
                spec = S.base_spec(crop={"name": name, "planting": "04/15", "harvest": None, "scale": None, "kw": {}}, soil={"type": soil, "dz": None, "kw": {}},
                                   start="1982/04/15", end="1982/12/31", weather={"kind": "file", "name": "tunis_climate.txt"})
                spec["iwc"] = S.iwc_for(spec["soil"], "FC")
                spec["irr"] = {"method": 1, "kw": {"SMT": [smt] * 4, "MaxIrr": 5}}
                yield {"kind": "spec", "spec": spec, "label": ["tunis-deficit", name, soil, smt]}
    # fallow rows after a season that ended by crop DEATH (drought / cold), followed by a second season
    for name in sub:
        for kw in (dict(word="warm", frm=[25, "D"]), dict(word="warm", dev=[[d, "F"] for d in range(30, 50)])):
            spec = A.catalogue_spec(name, soil="SandyLoam", off=True, start="2001/04/25", end="2002/12/30", **kw)
            yield {"kind": "spec", "spec": spec, "label": ["offseason-after-death", name, sorted(kw)]}
    # bunded, ponded fields (submergence days, transpiration from the pond) from mid-season on
    for name in (sub if tier == "quick" else [n for n in names if n in A.calendar_crop_names()]):
        for soil in ("Clay", "Paddy"):
            spec = A.catalogue_spec(name, soil=soil, word="warm", frm=[35, "wet"], field="bunds200", iwc="FC")
            yield {"kind": "spec", "spec": spec, "label": ["bunds", name, soil]}
    # restrictive layer inside the root zone, every crop
    for name in (names if tier != "quick" else sub):
        spec = A.catalogue_spec(name, soil="custom3", dz="nonuni", word="warm", irr="smt")
        yield {"kind": "spec", "spec": spec, "label": ["restrictive", name]}
    # a restrictive layer whose top lies at every position relative to the maximum rooting depth (above, straddling a compartment that
    # contains Zmax, below), on two thickness lists
    for xi, x in enumerate((0.5, 0.9, 1.4)):
        A.SOILS.setdefault(f"restr{x}", {"type": "custom", "layers": [[x, 0.15, 0.30, 0.45, 500.0, 100], [4.0 - x, 0.20, 0.35, 0.47, 100.0, 30]]})
    for name in (["Wheat", "Maize"] if tier == "quick" else ["Wheat", "Maize", "Cotton", "Potato"]):
        for x in (0.5, 0.9, 1.4):
            for zmax in (0.6, 1.0, 1.5):
                for dz in ("nonuni", "d12"):
                    if dz == "d12" and x >= 1.2:
                        continue     # the second layer would hold no compartment of a 1.2 m list: not a representable soil
                    spec = A.catalogue_spec(name, soil=f"restr{x}", dz=dz, word="warm", irr="smt", cropkw={"Zmax": zmax, "Zmin": 0.3})
                    yield {"kind": "spec", "spec": spec, "label": ["restrictive-vs-zmax", name, x, zmax, dz]}
    # keyword overrides of the envelope parameters, with and without pre-season days (start before planting)
    over = [{"Zmin": 0.5, "Zmax": 1.2}, {"Zmin": 0.15, "Zmax": 0.9, "CCx": 0.7}, {"HI0": 0.3, "dHI0": 5}, {"Tbase": 6.0, "Tupp": 28.0}, {"Aer": 12, "Zmin": 0.45}]
    for name in (sub if tier == "quick" else names):
        for oi, kw in enumerate(over):
            if tier == "quick" and (names.index(name) + oi) % 2:
                continue
            for start in ("2001/05/01", "2001/04/21"):
                spec = A.catalogue_spec(name, soil="SandyLoam", word="warm", cropkw=kw, start=start)
                yield {"kind": "spec", "spec": spec, "label": ["override", name, kw, start]}
    # crop-type switches and the water-productivity reduction in yield formation, flipped / at the documented end of their range, for
    # calendar, thermal and converted (SwitchGDD=1) crops: branches only a few built-in crops take
    from aquacrop.entities.crops.crop_params import crop_params
    sw_names = names if tier != "quick" else sub + ["CottonGDD", "SoybeanGDD", "DryBeanGDD", "Quinoa", "DryBean"]
    for name in sw_names:
        det = int(crop_params[name].get("Determinant", 1))
        variants = [{"WPy": 50}, {"Determinant": 1 - det}, {"WPy": 60, "Determinant": 0}]
        if not name.endswith("GDD") and int(crop_params[name].get("CalendarType", 1)) == 1:
            variants += [{"SwitchGDD": 1}, {"SwitchGDD": 1, "WPy": 60}]
        for kw in variants:
            spec = A.catalogue_spec(name, soil="SandyLoam", word="warm", irr="smt", cropkw=kw)
            yield {"kind": "spec", "spec": spec, "label": ["type-switches", name, kw]}
    # degree-day methods 1-3 under days that lie entirely below the base or above the upper temperature
    blocks = [[d, "F"] for d in range(20, 24)] + [[d, "T"] for d in range(30, 34)] + [[d, "C"] for d in range(40, 43)]
    for name in (sub if tier == "quick" else names):
        for meth in (1, 2, 3):
            spec = A.catalogue_spec(name, soil="SandyLoam", word="warm", dev=blocks, cropkw={"GDDmethod": meth})
            yield {"kind": "spec", "spec": spec, "label": ["gddmethod", name, meth]}
    # scaled crops with a single deviating day at every day of the season
    scaled = ["maize.2", "potato.2", "cotton.2"] if tier == "quick" else ["maize.2", "potato.2", "cotton.2", "rice.2", "wheat.15", "soybean.2", "tomato.2"]
    syms = ("C", "H") if tier == "quick" else ("C", "H", "D", "S")
    for ck in scaled:
        base = A._b(crop=ck, win="w1s", word="normal", soil="custom3" if ck == "potato.2" else "SandyLoam")
        L = A.crop_length_days(A.CROPS[ck])
        for pos in range(0, L + 1, 2 if tier == "quick" else 1):
            for sym in syms:
                c = dict(base)
                c["dev"] = [[pos, sym]]
                yield {"kind": "config", "config": c}


def run(scn):
    spec = scn["spec"] if scn["kind"] == "spec" else A.to_spec(scn["config"])
    ctx = execute(spec, [C05Envelope()], pid=PID, timeout=120)
    facts = scenario_facts(spec)
    for v in ctx.violations:
        for k, val in facts.items():
            v["facts"].setdefault(k, val)
        v["facts"]["sig"] = [v["clause"], spec["crop"]["name"]]
    res = result_from_ctx(ctx)
    # regimes that make an execution non-trivial for this property
    res["witness"] = dict(res["witness"])
    return res


def describe(tier):
    return {
        "rule": "all 37 catalogue crops at full length x soils x stress words (normal/warm, drought from day 25, SAT start under the wet word, "
                "20-25-day cold and heat blocks around flowering), a water-table menu on a 3 m profile, a penetrability-50 layer inside the root zone, a restrictive layer at every position relative to Zmax, deficit irrigation and the recorded Tunis climate at full length, bunded ponded fields, fallow rows after a crop death, "
                "keyword overrides of the envelope parameters, degree-day methods 1-3, the crop-type switches flipped or at the end of their documented range (WPy 50/60, Determinant, SwitchGDD=1 for calendar crops), "
                "plus scaled crops with a single deviating day {C,H" + ("" if tier == "quick" else ",D,S") + "} at every" + (" second" if tier == "quick" else "")
                + " day of the season; envelope and monotonicity relations are evaluated on every in-season state / consecutive pair with that "
                "season's crop copy, zero-ness on every off-season row. Non-trivial = at least one regime witness hit.",
        "bound": ("37 crops x 2 of 4 (soil,word) cells; 8 crops x 2 tables; 8 crops restrictive; 3 scaled crops x every 2nd day x 2 symbols"
                  if tier == "quick" else
                  "37 crops x 4 soils x 6 words; 37 crops x 5 tables x 2 strategies; 37 crops restrictive; 7 scaled crops x every day x 4 symbols"),
        "exhaustive": True,
        "witnesses": WITNESSES,
        "assumptions": ["catalogue sentinel dHI0=-9 is read as 'no increase allowed'", "float slack 1e-9"],
    }
