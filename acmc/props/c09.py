"""C09 Step-wise execution equals one uninterrupted run -- DESIGN 3/C09.

(i)  brute force: ALL 2^(n-1) compositions of the first n transitions into run_model(num_steps=k) calls, then an overshooting call;
(ii) explicit-state search with deduplication: from the canonical state after j steps every call size k is applied to a deep copy
     and must land on the canonical state the uninterrupted run has after j+k steps (covers all 2^(N-1) histories by induction on
     the canonical state; the induction hypothesis is what (i) validates)."""
import copy
import itertools

from .. import alphabets as A
from .. import spec as S
from ..driver import canon_state, tables, tables_digest, watchdog, Timeout, describe_exception
from ..runner import empty_result
from ._pairs import compare_all, V

PID = "C09"
LEVEL = "model_checking"
WITNESSES = ["compositions", "cut_inside_season", "cut_at_season_jump", "overshoot_call", "dedup_edges", "final_tables_compared", "reused_instance", "call_ends_exactly_at_termination", "numpy_step_counts", "weather_reassigned_between_calls", "final_call_with_process_outputs", "continue_flag_not_the_singleton_false"]
NONTRIVIAL = ["cut_at_season_jump", "overshoot_call", "dedup_edges", "reused_instance", "call_ends_exactly_at_termination"]

CONFIGS = {
    "rainfed": A._b(crop="maize.1", win={"pre": 2, "seasons": 2}, word="mix"),
    "smt": A._b(crop="maize.1", win={"pre": 2, "seasons": 2}, word="dry", irr="smt", iwc="WP"),
    "net": A._b(crop="maize.1", win={"pre": 1, "seasons": 2}, word="dry", irr="net80", iwc="WP", soil="Sand"),
    "sched": A._b(crop="maize.1", win={"pre": 2, "seasons": 2}, word="normal", irr="sched"),
    "bunds": A._b(crop="rice.2", win={"pre": 2, "seasons": 2}, word="wet", field="bunds50w20", soil="Clay", iwc="SAT"),
    "gw": A._b(crop="maize.1", win={"pre": 2, "seasons": 2}, word="normal", gw="0.8", dz="deep30"),
    "offseason": A._b(crop="maize.1", win={"pre": 2, "seasons": 1}, word="mix", off=True),
    "three": A._b(crop="maize.2", win={"pre": 3, "seasons": 3}, word="mix", irr="int3"),
}
THERMAL = {"crop": {"name": "MaizeGDD", "planting": "05/01", "harvest": "08/30", "scale": None, "gddscale": 0.1, "kw": {}}}


A.CROPS.setdefault("maize.04", {"name": "Maize", "scale": 0.04})


def spec_for(name):
    if name.endswith("@lead"):
        s = spec_for(name[:-5])
        s["weather"]["lead"] = 300       # the user's record starts 300 days before the simulation
        s["weather"]["trail"] = 50
        return s
    short = name.endswith("@short")
    if short:
        name = name[:-6]
        cfg = dict(CONFIGS[name])
        if cfg["crop"].startswith("maize"):
            cfg["crop"] = "maize.04"
        cfg["win"] = {"pre": 1, "seasons": 3}
        s = A.to_spec(cfg)
        if cfg.get("off"):
            s["end"] = A._f(A._d(s["start"]) + __import__("datetime").timedelta(days=14))
        return s
    if name == "thermal":
        s = A.to_spec(A._b(crop="maize.1", win={"pre": 2, "seasons": 2}, word="warm"))
        s["crop"] = copy.deepcopy(THERMAL["crop"])
        s["end"] = "2002/09/15"
        return s
    s = A.to_spec(CONFIGS[name])
    if CONFIGS[name].get("off"):
        # keep the off-season run short: stop 12 days after the first planting + crop length
        L = A.crop_length_days(s["crop"])
        s["end"] = A._f(A._d(s["start"]) + __import__("datetime").timedelta(days=L + 16))
    return s


def compositions(n):
    """All 2^(n-1) compositions of n (tuples of positive integers summing to n)."""
    for mask in range(1 << (n - 1)):
        parts, cur = [], 1
        for i in range(n - 1):
            if mask >> i & 1:
                parts.append(cur)
                cur = 1
            else:
                cur += 1
        parts.append(cur)
        yield tuple(parts)


def scenarios(tier, seed=0):
    q = tier == "quick"
    names = ["rainfed", "smt", "net", "bunds", "offseason", "thermal"] if q else list(CONFIGS) + ["thermal"]
    n = 8 if q else 11
    for name in names:
        comps = list(compositions(n))
        B = 32 if q else 64
        for i in range(0, len(comps), B):
            yield {"kind": "brute", "config": name + ("@short" if name != "thermal" else ""), "n": n, "parts": [list(c) for c in comps[i:i + B]]}
    # the same model object after it has already completed a run: first call re-initialises, later calls continue
    for name in names:
        comps = list(compositions(n))
        pick = comps[:: (8 if q else 2)]
        yield {"kind": "brute", "config": name + ("@short" if name != "thermal" else ""), "n": n, "parts": [list(c) for c in pick], "reuse": True}
    for name in names[:3]:
        comps = list(compositions(n))
        yield {"kind": "brute", "config": name + "@short", "n": n, "parts": [list(c) for c in comps[:: (16 if q else 4)]], "numpy_steps": True}
    # the "do not re-initialise" flag given as numpy.False_ (an element of a boolean array, the result of i == 0 on a numpy integer) or 0
    for name in names[:3]:
        comps = list(compositions(n))
        for flag in ("np_false", "zero"):
            yield {"kind": "brute", "config": name + "@short", "n": n, "parts": [list(c) for c in comps[:: (16 if q else 4)]], "falsy_flag": flag}
    for name in names[:3]:
        comps = list(compositions(n))
        yield {"kind": "brute", "config": name + "@short@lead", "n": n, "parts": [list(c) for c in comps[:: (16 if q else 4)]], "reassign_weather": True}
    N = 30 if q else 64
    for name in names:
        for j0 in range(0, N + 1, 4):
            yield {"kind": "dedup", "config": name, "N": N, "js": list(range(j0, min(N + 1, j0 + 4)))}


class Ref:
    """The uninterrupted run: final tables, total number of transitions, canonical state after a single call of j steps."""

    _cache = {}

    @classmethod
    def get(cls, name):
        if name not in cls._cache:
            cls._cache[name] = cls(name)
        return cls._cache[name]

    def __init__(self, name):
        self.spec = spec_for(name)
        m = S.make_model(self.spec)
        m.run_model(till_termination=True)
        self.tables = tables(m)
        self.final_canon = canon_state(m, with_outputs=True)
        import numpy as np

        self.total = int((abs(self.tables["storage"][:, 3:]).sum(axis=1) != 0).sum())
        self.canon = {}
        self.models = {}

    def after(self, j, keep_model=False):
        """Canonical state after ONE call run_model(num_steps=j) on a fresh model (j=0: just initialised)."""
        if j not in self.canon or (keep_model and j not in self.models):
            m = S.make_model(self.spec)
            m._initialize()
            if j > 0:
                m.run_model(num_steps=j, initialize_model=False)
            self.canon[j] = canon_state(m, with_outputs=True)
            if keep_model:
                self.models[j] = m
        return self.canon[j]


def check_unfinished(m, res, where):
    try:
        r = m.get_simulation_results()
        fin = m.get_additional_information()["has_model_finished"]
    except Exception as e:  # noqa: BLE001
        res["violations"].append(V("getters-after-call", None, repr(e), "no exception", where=where))
        return
    if r is not False or fin is not False:
        res["violations"].append(V("unfinished-until-termination", None, {"results_is_False": r is False, "has_model_finished": fin}, "False / False", where=where))
    # a user inspecting the daily tables between two calls must not change what the later calls report
    try:
        m.get_water_flux(), m.get_water_storage(), m.get_crop_growth()
    except Exception as e:  # noqa: BLE001
        res["violations"].append(V("getters-after-call", None, repr(e), "no exception", where=where))


def check_final(m, ref, res, where):
    fin = m.get_additional_information()["has_model_finished"]
    if fin is not True:
        res["violations"].append(V("finished-flag-after-final-call", None, fin, True, where=where))
    r = m.get_simulation_results()
    if r is False:
        res["violations"].append(V("summary-after-final-call", None, False, "summary table", where=where))
        return
    d = compare_all(tables(m), ref.tables)
    if d is None:
        # ... and the tables the PUBLIC getters hand out (not only the model's internal arrays)
        import numpy as np
        for nm, get in (("flux", m.get_water_flux), ("storage", m.get_water_storage), ("growth", m.get_crop_growth)):
            a = np.asarray(getattr(get(), "values", get()), dtype=float)
            b = np.asarray(ref.tables[nm], dtype=float)
            if a.shape != b.shape or np.nan_to_num(a).tobytes() != np.nan_to_num(b).tobytes():
                ne = np.argwhere(np.nan_to_num(a) != np.nan_to_num(b)) if a.shape == b.shape else []
                d = {"table": nm + " (public getter)", "row": int(ne[0][0]) if len(ne) else None, "col": int(ne[0][1]) if len(ne) else None}
                break
    if d is not None:
        res["violations"].append(V("final-tables-equal-uninterrupted-run", d.get("row"), d, "bitwise equal", where=where, sig=["final", d.get("table"), d.get("col")]))
    res["witness"]["final_tables_compared"] = res["witness"].get("final_tables_compared", 0) + 1


def run(scn):
    from .. import ensure_repo_on_path

    ensure_repo_on_path()
    res = empty_result()
    wit = res["witness"]
    seen = set()
    try:
        with watchdog(600):
            ref = Ref.get(scn["config"])
            jumps = jump_steps(ref)
            if scn["kind"] == "brute":
                n = min(scn["n"], ref.total - 1)
                for parts in scn["parts"]:
                    parts = trim(parts, n)
                    m = S.make_model(ref.spec)
                    if scn.get("reuse"):
                        # history: this object has completed a whole run before (alternating the way it was completed)
                        if len(parts) % 2:
                            m.run_model(till_termination=True)
                        else:
                            m.run_model(num_steps=ref.total + 3)
                        wit["reused_instance"] = wit.get("reused_instance", 0) + 1
                    else:
                        m._initialize()
                    done = 0
                    for ci, k in enumerate(parts):
                        # step counts as numpy integers (np.diff of observation days, rng.integers ...) are as valid as Python ints
                        kk = __import__("numpy").int64(k) if scn.get("numpy_steps") else k
                        init = bool(scn.get("reuse")) and ci == 0
                        if scn.get("falsy_flag") and not init:
                            init = __import__("numpy").False_ if scn["falsy_flag"] == "np_false" else 0
                            wit["continue_flag_not_the_singleton_false"] = wit.get("continue_flag_not_the_singleton_false", 0) + 1
                        m.run_model(num_steps=kk, initialize_model=init)
                        done += k
                        res["transitions"] += k
                        res["evals"] += 1
                        if m._clock_struct.model_is_finished:
                            break
                        check_unfinished(m, res, {"parts": parts, "after": done})
                        if scn.get("reassign_weather"):
                            # a user refreshing the (unchanged) weather table between two calls through the public attribute
                            m.weather_df = S.make_weather(ref.spec)
                            wit["weather_reassigned_between_calls"] = wit.get("weather_reassigned_between_calls", 0) + 1
                        cs = canon_state(m, with_outputs=True)
                        seen.add(cs[:8])
                        if cs != ref.after(done):
                            res["violations"].append(V("state-at-cut-equals-uninterrupted", done, {"parts": parts, "after_steps": done}, "canonical state of one call of that many steps", sig=["cut"]))
                            break
                        if done in jumps:
                            wit["cut_at_season_jump"] = wit.get("cut_at_season_jump", 0) + 1
                        else:
                            wit["cut_inside_season"] = wit.get("cut_inside_season", 0) + 1
                    # final, overshooting call
                    if not m._clock_struct.model_is_finished:
                        m.run_model(num_steps=ref.total + 5, initialize_model=False)
                        res["transitions"] += ref.total - done
                        wit["overshoot_call"] = wit.get("overshoot_call", 0) + 1
                    check_final(m, ref, res, {"parts": parts})
                    wit["compositions"] = wit.get("compositions", 0) + 1
                    if scn.get("numpy_steps"):
                        wit["numpy_step_counts"] = wit.get("numpy_step_counts", 0) + 1
            else:
                N = min(scn["N"], ref.total - 1)
                for j in scn["js"]:
                    if j > N:
                        continue
                    ref.after(j, keep_model=True)
                    base = ref.models[j]
                    for k in list(range(1, N - j + 1)) + [ref.total - j, ref.total + 5, -(ref.total - j), -(ref.total + 5)]:
                        m = copy.deepcopy(base)
                        processed = k < 0
                        if k < 0:
                            # the same final calls (exact / overshooting) asking for the tables to be processed at the end of the call
                            k = -k
                            m.run_model(num_steps=k, initialize_model=False, process_outputs=True)
                            wit["final_call_with_process_outputs"] = wit.get("final_call_with_process_outputs", 0) + 1
                        else:
                            m.run_model(num_steps=k, initialize_model=False)
                        res["evals"] += 1
                        wit["dedup_edges"] = wit.get("dedup_edges", 0) + 1
                        if k == ref.total - j:
                            # the call's last requested step is exactly the terminating step
                            res["transitions"] += k
                            wit["call_ends_exactly_at_termination"] = wit.get("call_ends_exactly_at_termination", 0) + 1
                            check_final(m, ref, res, {"from": j, "call": k, "exact": True})
                            if not processed and canon_state(m, with_outputs=True) != ref.final_canon:
                                res["violations"].append(V("exact-call-reaches-final-state", j, {"from": j, "call": k}, "state of the uninterrupted run", sig=["exact"]))
                        elif k > ref.total:
                            res["transitions"] += ref.total - j
                            check_final(m, ref, res, {"from": j, "call": k})
                            if not processed and canon_state(m, with_outputs=True) != ref.final_canon:
                                res["violations"].append(V("overshoot-stops-at-termination", j, {"from": j, "call": k}, "state of the uninterrupted run", sig=["overshoot"]))
                        else:
                            res["transitions"] += k
                            check_unfinished(m, res, {"from": j, "call": k})
                            cs = canon_state(m, with_outputs=True)
                            seen.add(cs[:8])
                            if cs != ref.after(j + k):
                                res["violations"].append(V("edge-lands-on-uninterrupted-state", j + k, {"from": j, "call": k}, "canonical state after j+k steps of one call", sig=["edge"]))
                    ref.models.pop(j, None)
    except Timeout as e:
        res["aborted"] = {"exc_type": "Timeout", "exc_msg": str(e), "exc_origin": "watchdog"}
    except Exception as e:  # noqa: BLE001
        d = describe_exception(e)
        res["aborted"] = d
        res["violations"].append(V("stepping-raises", None, {k: d.get(k) for k in ("exc_type", "exc_origin", "exc_msg")}, "no exception", sig=["raise", d.get("exc_origin")]))
    res["states"] = b"".join(sorted(seen))
    return res


def trim(parts, n):
    out, s = [], 0
    for k in parts:
        if s + k > n:
            k = n - s
        if k <= 0:
            break
        out.append(k)
        s += k
    return out


def jump_steps(ref):
    import numpy as np

    st = ref.tables["storage"]
    ex = np.where(abs(st[:, 3:]).sum(axis=1) != 0)[0]
    out = set()
    for i in range(1, len(ex)):
        if ex[i] - ex[i - 1] > 1:
            out.add(i)
    return out


def describe(tier):
    n, N = (8, 30) if tier == "quick" else (11, 64)
    return {
        "rule": f"(i) ALL 2^(n-1) compositions of the first n={n} transitions into run_model(num_steps=k, initialize_model=False) calls followed by an overshooting "
                f"call, on windows whose first days contain pre-season days, a season start, a harvest with a jump and the termination; (ii) deduplicated "
                f"search: from the state after j steps (j=0..N={N}) every call size k in 1..N-j, the size that ends exactly on the terminating step, and an overshooting size is applied to a deep copy and must land on "
                "the canonical state (clock + every condition field + crop copies + CO2 + all output rows) that ONE call of j+k steps reaches; plus a subset of the compositions on a model object that has ALREADY completed a run (first call re-initialises); x configurations "
                "{rainfed, threshold, net, schedule, bunds, groundwater, off-season, 3 seasons, thermal crop}. After every non-final call results/finished flag "
                "must be False, after the final one all four tables are bitwise those of run_model(till_termination=True).",
        "bound": f"compositions complete for n={n}; call-size edges complete for N={N}",
        "exhaustive": True,
        "witnesses": WITNESSES,
        "assumptions": ["the canonical form contains everything a step reads (cross-checked by the brute-force part in every run)",
                        "process_outputs is left at its default (False) in every call but the last; the final (exact or overshooting) call is made both without and with process_outputs=True",
                        "a re-used instance is stepped with initialize_model=True on its first call only (the run is re-initialised once, not in between)"],
    }
