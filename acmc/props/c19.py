"""C19 Shallow groundwater behaves consistently -- DESIGN 3/C19."""
import copy
import itertools

import numpy as np

from .. import alphabets as A
from ..driver import execute, run_plain, first_diff, FX
from ..monitors.groundwater import C19Groundwater
from ..runner import result_from_ctx, empty_result
from ._water import scenario_facts

PID = "C19"
LEVEL = "model_checking"
WITNESSES = ["table_inside_profile_day", "table_below_profile_day", "capillary_rise_day", "gwin_day", "fc_raised_day",
             "deepened_profile", "day_outside_observations", "far_table_pair"]
NONTRIVIAL = ["table_inside_profile_day", "capillary_rise_day", "gwin_day", "fc_raised_day", "far_table_pair", "day_outside_observations"]

GW_EXTRA = {
    "two_v": {"method": "Variable", "series": [[0, 1.8], [40, 0.7]]},
    "four_c": {"method": "Constant", "series": [[0, 2.0], [8, 1.0], [16, 0.4], [30, 1.6]]},
    "four_v": {"method": "Variable", "series": [[0, 2.0], [8, 1.0], [16, 0.4], [30, 1.6]]},
    "late_v": {"method": "Variable", "series": [[6, 1.6], [20, 0.6], [9999, 0.9]]},   # first observation after the first simulated day
    "late_c": {"method": "Constant", "series": [[6, 1.6], [20, 0.6]]},
    "early_v": {"method": "Variable", "series": [[-30, 2.5], [15, 0.8], [9999, 1.2]]},  # an observation before the window
    "early_c": {"method": "Constant", "series": [[-45, 3.0], [-14, 2.5], [15, 0.8], [40, 1.6]]},
    "all_before_c": {"method": "Constant", "series": [[-60, 2.2], [-20, 1.1]]},
    "0": {"method": "Constant", "dates": ["{start}"], "values": [0.0]},   # a table at the soil surface
    "touch0_v": {"method": "Variable", "series": [[0, 0.6], [20, 0.0], [40, 0.6]]},   # one day exactly at the surface
    "touch0_c": {"method": "Constant", "series": [[0, 0.5], [15, 0.0], [30, 0.9]]},
    "0.05": {"method": "Constant", "dates": ["{start}"], "values": [0.05]},   # inside the first compartment, above its centre
    # tables a few millimetres above a compartment centre that lies on a half centimetre (0.225, 0.525, 0.825, 0.275 ...)
    "0.222": {"method": "Constant", "dates": ["{start}"], "values": [0.222]},
    "0.522": {"method": "Constant", "dates": ["{start}"], "values": [0.522]},
    "0.824": {"method": "Constant", "dates": ["{start}"], "values": [0.824]},
    "0.271": {"method": "Constant", "dates": ["{start}"], "values": [0.271]},
    "slow_v": {"method": "Variable", "series": [[0, 0.55], [120, 1.40]]},   # crosses several centres slowly
    # depths typed as Python integers mixed with fractional ones (values=[2, 1.5, 1.25]): the series must not take the type of one entry
    "int_first_c": {"method": "Constant", "series": [[0, 2], [12, 1.5], [25, 1.25]]},
    "int_first_v": {"method": "Variable", "series": [[0, 2], [20, 0.5], [9999, 1]]},
    "int_all_c": {"method": "Constant", "series": [[0, 3], [10, 2], [20, 1]]},
    "int_last_c": {"method": "Constant", "series": [[0, 1.75], [15, 0.6], [30, 2]]},
    # observations not listed in chronological order (an earlier reading appended at the end): interpolation is by DATE
    "unsorted_v": {"method": "Variable", "series": [[30, 0.5], [9999, 0.9], [0, 2.4]]},
    "unsorted4_v": {"method": "Variable", "series": [[16, 0.4], [0, 2.0], [30, 1.6], [8, 1.0]]},
}
A.GW.update(GW_EXTRA)
ALL_GW = ["none", "0.3", "0.8", "1.5", "2.5", "6", "50", "rising_c", "rising_v", "falling_v", "falling_c", "two_v", "four_c", "four_v", "late_v", "late_c", "early_v", "early_c", "all_before_c", "0", "touch0_v", "touch0_c", "0.05", "int_first_c", "int_first_v", "int_all_c", "int_last_c", "unsorted_v", "unsorted4_v"]

A.SOILS.setdefault("fc4dec", {"type": "custom", "layers": [[4.0, 0.1325, 0.2875, 0.4315, 420.0, 100]]})   # module level: replays need it too


def scenarios(tier, seed=0):
    soils = ["SandyLoam", "Clay"] if tier == "quick" else ["SandyLoam", "Clay", "Paddy", "custom3"]
    dzs = ["deep30", "d12"]
    crops = ["maize.2"] if tier == "quick" else ["maize.2", "potato.2"]
    irrs = ["none", "net80"] if tier == "quick" else ["none", "smt", "net80"]
    words = ["normal", "dry"] if tier == "quick" else ["normal", "dry", "wet"]
    for soil, dz, gw, ck, irr, word in itertools.product(soils, dzs, ALL_GW, crops, irrs, words):
        if tier == "quick" and irr == "net80" and word == "normal":
            continue
        c = A._b(soil=soil, dz=dz, gw=gw, crop=ck, irr=irr, word=word, win="w2", iwc="FC")
        yield {"kind": "config", "config": c}
    # half-centimetre centres (compartments of 5 and 15 cm, profiles that are not deepened) with tables millimetres above a centre
    for soil, dz, gw, word in itertools.product(soils[:2], ["d15x20", "odd"], ["0.222", "0.522", "0.824", "0.271", "slow_v", "rising_v", "0.8"], ["dry", "normal"]):
        c = A._b(soil=soil, dz=dz, gw=gw, crop="maize.2", irr="none", word=word, win="w2", iwc="FC")
        yield {"kind": "config", "config": c}
    # the observation dates written in other accepted notations (unpadded 2001/5/9, dashes, Timestamp objects), multi-observation series
    for soil, dz, gw, style in itertools.product(soils[:2], dzs, [g for g in ALL_GW if any(k in g for k in ("rising", "falling", "slow", "four", "two", "late", "early"))], ["unpadded", "dashes", "timestamp"]):
        c = A._b(soil=soil, dz=dz, gw=gw, crop="maize.2", irr="none", word="normal", win="w2", iwc="FC")
        yield {"kind": "config", "config": c, "date_style": style}
    # far table == no table (pairs of executions)
    for soil, dz, ck, irr, word in itertools.product(soils, dzs, crops, irrs, words[:2]):
        c = A._b(soil=soil, dz=dz, gw="50", crop=ck, irr=irr, word=word, win="w2", iwc="Pct50")
        yield {"kind": "far", "config": c}
    # hydraulic values with more than three decimals (calibrated custom layers): nothing may round them on one side of the pair only

    for dz, word, iwc in itertools.product(dzs, ["wet", "normal"], ["Pct50", "WP", "SAT", "FC"]):
        c = A._b(soil="fc4dec", dz=dz, gw="50", crop="maize.2", irr="none", word=word, win="w2", iwc=iwc)
        yield {"kind": "far", "config": c}
    if tier != "quick":
        for gw in ALL_GW:
            spec = A.catalogue_spec("Wheat", word="normal", soil="SandyLoam", gw=gw, dz="deep30", planting="10/01", start="2001/10/01", end="2002/09/20")
            yield {"kind": "spec", "spec": spec, "label": ["wheat", gw]}


def run(scn):
    if scn["kind"] == "far":
        return run_far(scn)
    spec = scn["spec"] if scn["kind"] == "spec" else A.to_spec(scn["config"])
    if scn.get("date_style") and spec.get("gw"):
        spec["gw"]["date_style"] = scn["date_style"]
    ctx = execute(spec, [C19Groundwater()], pid=PID, timeout=120)
    ab = ctx.aborted
    if ab and spec.get("gw") is not None and any(k in (ab.get("exc_origin") or "") + " ".join(ab.get("exc_chain") or []) for k in
                                                 ("check_groundwater_table", "read_groundwater_table", "capillary_rise", "groundwater_inflow")):
        ctx.violate("groundwater-configuration-runs", ab.get("step"), observed={"exc": ab.get("exc_type"), "origin": ab.get("exc_origin"), "msg": (ab.get("exc_msg") or "")[:160]},
                    expected="the daily water-table depth follows the observations (no exception from the groundwater code)", exc_origin=ab.get("exc_origin"))
    facts = scenario_facts(spec)
    for v in ctx.violations:
        for k, val in facts.items():
            v["facts"].setdefault(k, val)
        v["facts"]["sig"] = [v["clause"], v["facts"].get("stale_mid_above_table")]
    return result_from_ctx(ctx)


def run_far(scn):
    res = empty_result()
    spec = A.to_spec(scn["config"])
    none = copy.deepcopy(spec)
    none["gw"] = None
    ta, aa, _ = run_plain(spec)
    tb, ab, _ = run_plain(none)
    res["evals"] = 1
    if aa or ab:
        res["aborted"] = aa or ab
        return res
    res["transitions"] = int((ta["storage"][:, 3:].sum(axis=1) != 0).sum() + (tb["storage"][:, 3:].sum(axis=1) != 0).sum())
    res["witness"] = {"far_table_pair": 1}
    fa, fb = ta["flux"].copy(), tb["flux"].copy()
    fa[:, FX["z_gw"]] = 0
    fb[:, FX["z_gw"]] = 0
    for name, x, y in (("flux", fa, fb), ("storage", ta["storage"], tb["storage"]), ("growth", ta["growth"], tb["growth"])):
        d = first_diff(np.nan_to_num(x, nan=-1.0), np.nan_to_num(y, nan=-1.0))
        if d is not None:
            res["violations"].append({"clause": "far-table-equals-none", "step": d[0] if isinstance(d[0], int) else None,
                                      "observed": {"table": name, "diff": list(d)}, "expected": "bitwise equal", "facts": {"sig": ["far", name]}})
            break
    if ta["final"] != tb["final"]:
        res["violations"].append({"clause": "far-table-equals-none", "step": None, "observed": {"table": "summary", "a": ta["final"], "b": tb["final"]},
                                  "expected": "equal", "facts": {"sig": ["far", "summary"]}})
    return res


def describe(tier):
    return {
        "rule": "soils x {30x0.1 m profile, default profile that is deepened} x 19 water-table settings (none; constant 0.3-50 m; rising/falling series with "
                "2-4 observations, held constant or interpolated; series whose first observation is after / before the first simulated day) x crops x "
                "irrigation x words; theta_fc <= theta_fc_adj <= theta_s (and = theta_fc when the table is >= 2 m below the centre) on every groundwater "
                "check, capillary-rise cap around every capillary_rise call, saturation below the table (true centres) after every transition, z_gw = "
                "reference interpolation on every covered day, CR = GwIn = 0 without a table; plus pairs (table at 50 m, no table) compared bitwise.",
        "bound": "product complete over the stated menus" + (" (quick: 2 soils, 1 crop)" if tier == "quick" else ""),
        "exhaustive": True,
        "witnesses": WITNESSES,
        "assumptions": ["compartment centres are recomputed from cumsum(dz) of the initialised profile (not read from the model's zMid)",
                        "z_gw is compared on days inside the observed range (after the first observation for held series)"],
    }
