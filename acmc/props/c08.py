"""C08 Seasons are independent when the off-season is not simulated -- DESIGN 3/C08."""
import copy
import itertools

import numpy as np
import pandas as pd

from .. import alphabets as A
from .. import spec as S
from ..driver import run_plain, FX, GX
from ..runner import empty_result
from ._pairs import nan_safe, V, table_state_keys

PID = "C08"
LEVEL = "model_checking"
WITNESSES = ["season_compared", "irrigated_season", "pre_irrigation_season", "bunded_season", "table_season", "thermal_season", "season_3plus"]
NONTRIVIAL = ["irrigated_season", "pre_irrigation_season", "bunded_season", "table_season", "thermal_season", "season_3plus"]


A.CROPS.setdefault("drybean.2", {"name": "DryBean", "scale": 0.2})
A.CROPS.setdefault("quinoa.2", {"name": "Quinoa", "scale": 0.2})
A.GW.setdefault("years_v", {"method": "Variable", "series": [[0, 1.9], [250, 1.2], [420, 1.7], [640, 1.0], [800, 1.5], [1200, 1.3]]})
A.GW.setdefault("years_c", {"method": "Constant", "series": [[0, 1.8], [300, 1.1], [700, 1.5]]})


def scenarios(tier, seed=0):
    q = tier == "quick"
    irrs = ["none", "smt", "int3", "sched", "net80", "const8e70"]
    iwcs = ["WP", "FC"] if q else ["WP", "FC", "SAT"]
    if q:
        iwcs = ["FC"]  # (the second crop replaces the second initial content in the quick tier; WP starts are covered by the net-irrigation rows)
    fields = ["none", "bunds50w20"] if q else ["none", "bunds50w20", "mulch"]
    gws = ["none", "1.5"]
    words = ["mix"] if q else ["mix", "normal", "dry"]
    crops = ["maize.2", "cotton.2"] if q else ["maize.2", "potato.2", "cotton.2", "drybean.2", "quinoa.2"]
    for irr, iwc, field, gw, word, ck in itertools.product(irrs, iwcs, fields, gws, words, crops):
        c = A._b(crop=ck, irr=irr, iwc=iwc, field=field, gw=gw, word=word, win="w3", soil="Clay" if field.startswith("bunds") else "SandyLoam", dz="deep30" if gw != "none" else "d12")
        yield {"kind": "config", "config": c}
    # a water table whose depth differs between the first day of the run and the later planting dates, always BELOW the 1.2 m profile
    # (shallow-rooted crop, dry start so that net irrigation pre-irrigates): the initial water content does not depend on it, but
    # anything frozen on the run's first day (adjusted field capacity) shows against the run started at season k
    for gw, irr, soil, ck in itertools.product(["years_v", "years_c"], ["net80", "net50", "smt"] if not q else ["net80", "smt"], ["Loam", "ClayLoam"], ["maize.2"] if q else ["maize.2", "cotton.2"]):
        spec = A.to_spec(A._b(crop=ck, irr=irr, iwc="WP", gw=gw, word="normal", win="w3", soil=soil, dz="d12"))
        spec["crop"]["kw"] = dict(spec["crop"].get("kw") or {}, Zmax=1.0, Zmin=0.3)
        yield {"kind": "spec", "spec": spec, "label": ["moving-table-below-profile", gw, irr, soil, ck]}
    # the same series reaching INTO a deep profile: the stored initial water content is the one built for the table of the run's first
    # day (known finding F23)
    for gw in ("years_v", "years_c"):
        c = A._b(crop="maize.2", irr="none", iwc="WP", gw=gw, word="normal", win="w3", soil="Loam", dz="deep30")
        yield {"kind": "config", "config": c}
    for irr in (["smt", "net80"] if q else irrs):
        c = A._b(crop="maize.2", irr=irr, iwc="WP", win={"pre": 3, "seasons": 4}, word="mix", soil="Clay")
        yield {"kind": "config", "config": c}
    # a window that opens AFTER the planting day of its first calendar year (the first partial season is dropped: season numbers and
    # simulation years no longer line up), C3 crops under the default yearly CO2 record and under a steep user table
    for ck, pre, co2 in itertools.product(["cotton.2", "potato.2"], [-30, -200], [None, {"table": [[1990, 340.0], [2001, 380.0], [2002, 450.0], [2003, 520.0], [2004, 600.0], [2050, 900.0]]}]):
        spec = A.to_spec(A._b(crop=ck, irr="smt", iwc="FC", word="normal", win={"pre": pre, "seasons": 3}, soil="SandyLoam"))
        spec["co2"] = co2
        yield {"kind": "spec", "spec": spec, "label": ["start-after-planting", ck, pre, bool(co2)]}
    # a constant CO2 concentration, the switch written as True, numpy.True_ and 1 (every place that reads the switch must read it the
    # same way - whichever way that is), C3 crops, 3 seasons
    for ck, flag, conc in itertools.product(["cotton.2", "potato.2"] if not q else ["cotton.2"], [True, "np_true", 1], [450.0, 600.0]):
        spec = A.to_spec(A._b(crop=ck, irr="smt", iwc="FC", word="normal", win="w3", soil="SandyLoam"))
        spec["co2"] = {"constant_conc": flag, "current_concentration": conc}
        yield {"kind": "spec", "spec": spec, "label": ["constant-co2-switch-spelling", ck, str(flag), conc]}
    # thermal crops at full length under a constant 10 / 16 degree days a day: cumulative sums land EXACTLY on the thermal thresholds
    # (HIstart + YldForm, Senescence, Maturity ...), the calendar of season k is derived at another code site than that of season 0
    for name, word in (("MaizeGDD", "steady10"), ("WheatGDD", "steady16"), ("SorghumGDD", "steady10"), ("SunflowerGDD", "steady16")) if not q else (("MaizeGDD", "steady10"), ("WheatGDD", "steady16")):
        spec = A.catalogue_spec(name, word=word, irr="smt", iwc="FC", end="2003/04/20")
        yield {"kind": "spec", "spec": spec, "label": ["exact-thermal-thresholds", name, word]}
    # short thermal-time crops under sustained heat (pollination fails on the record's temperatures; anything that alters the
    # temperatures a later season sees shows against the run started at that season)
    for word, irr, meth in itertools.product(["scorch", "hot", "coolnights"], ["smt", "none"] if not q else ["smt"], [1, 2, 3]):
        spec = A.to_spec(A._b(crop="maize.2", irr=irr, iwc="FC", word=word, win="w3", soil="SandyLoam"))
        spec["crop"] = {"name": "MaizeGDD", "planting": "05/01", "harvest": "08/30", "scale": None, "gddscale": 0.15, "kw": {"GDDmethod": meth}}
        spec["end"] = "2003/09/15"
        yield {"kind": "spec", "spec": spec, "label": ["thermal-heat", word, irr, meth]}
    # thermal crop / full length (explicit harvest date so that both runs use the same latest-harvest day)
    full = [("MaizeGDD", "05/01", "10/30")] if q else [("MaizeGDD", "05/01", "10/30"), ("WheatGDD", "10/15", "07/30"), ("Wheat", "10/01", "06/30"), ("Maize", "05/01", "10/30")]
    for (name, planting, harvest), irr in itertools.product(full, ["smt", "int3"] if q else ["none", "smt", "int3", "net80"]):
        start = "2001/" + planting
        spec = A.catalogue_spec(name, word="hot" if name.endswith("GDD") else "warm", irr=irr, iwc="WP", planting=planting, start=start, end="2004/04/20")
        spec["crop"]["harvest"] = harvest
        yield {"kind": "spec", "spec": spec, "label": ["full", name, irr]}


def run(scn):
    res = empty_result()
    spec = A.to_spec(scn["config"]) if scn["kind"] == "config" else scn["spec"]
    spec = copy.deepcopy(spec)
    spec["off_season"] = False
    tm, am, mm = run_plain(spec, timeout=240)
    if am:
        res["aborted"] = am
        return res
    wdf = S.make_weather(spec)
    flux, sto, gro = tm["flux"], tm["storage"], tm["growth"]
    ck = mm._clock_struct
    plantings = [pd.Timestamp(x) for x in ck.planting_dates]
    start = pd.Timestamp(S.parse_date(spec["start"]))
    executed = np.abs(sto[:, 3:]).sum(axis=1) != 0
    res["transitions"] = int(executed.sum())
    res["states"] = table_state_keys(tm)[0]
    nseason_rows = len(tm["final"])
    for k in range(1, int(ck.n_seasons)):
        rows = np.where(executed & (flux[:, FX["season_counter"]] == k))[0]
        if len(rows) == 0:
            continue
        spec1 = copy.deepcopy(spec)
        spec1["start"] = plantings[k].strftime("%Y/%m/%d")
        # a dated schedule / series is given by date, so it carries over unchanged
        ent = S.make_entities(spec1)
        ent["weather_df"] = wdf.copy()
        t1, a1, m1 = run_plain(spec1, timeout=240, entities=ent)
        res["evals"] += 1
        if a1:
            res["violations"].append(V("single-season-run-raises", None, {k_: a1.get(k_) for k_ in ("exc_type", "exc_origin", "exc_msg")}, "runs like season k of the long run", season=k))
            continue
        f1, s1, g1 = t1["flux"], t1["storage"], t1["growth"]
        # fact for the ledger (F23): the table depth on season k's planting date differs from the one on the run's first day and the
        # initial water content the model built for the two start dates differs because of it
        zg = np.asarray(getattr(mm._param_struct, "z_gw", []), dtype=float)
        off_k = int((plantings[k] - start).days)
        table_moved = bool(len(zg) > off_k and zg[0] != zg[off_k])
        init_differs = bool(table_moved and not np.array_equal(np.asarray(mm._init_cond.thini, dtype=float), np.asarray(m1._init_cond.thini, dtype=float)))
        ex1 = np.abs(s1[:, 3:]).sum(axis=1) != 0
        rows1 = np.where(ex1 & (f1[:, FX["season_counter"]] == 0))[0]
        res["transitions"] += int(ex1.sum())
        res["states"] += table_state_keys(t1)[0]
        off = int((plantings[k] - start).days)
        hitw = res["witness"]
        hitw["season_compared"] = hitw.get("season_compared", 0) + 1
        if len(rows) != len(rows1) or (rows - off != rows1).any():
            res["violations"].append(V("season-length", int(rows[0]), {"long_run_days": len(rows), "single_run_days": len(rows1)}, "same days", season=k))
            continue
        diff = None
        for name, a, b, skip in (("flux", flux, f1, (0, 1)), ("storage", sto, s1, (0,)), ("growth", gro, g1, (0, 1))):
            x = nan_safe(a[rows]).copy()
            y = nan_safe(b[rows1]).copy()
            # step index re-based, season counter differs by construction
            if not np.array_equal(a[rows, 0] - off, b[rows1, 0]):
                diff = {"table": name, "col": "time_step_counter"}
                break
            for c in skip:
                x[:, c] = 0
                y[:, c] = 0
            ne = np.argwhere(x.view(np.uint64) != y.view(np.uint64))
            if len(ne):
                r, c = int(ne[0][0]), int(ne[0][1])
                from ..driver import FLUX_COLS, GROWTH_COLS
                cols = FLUX_COLS if name == "flux" else (GROWTH_COLS if name == "growth" else None)
                diff = {"table": name, "day_of_season": r + 1, "col": cols[c] if cols else f"th{c - 2}", "long_run": float(a[rows[r], c]), "single_run": float(b[rows1[r], c])}
                break
        if diff:
            res["violations"].append(V("season-k-equals-fresh-single-season-run", int(rows[0]), diff, "bitwise equal", season=k,
                                       irr_method=(spec.get("irr") or {}).get("method", 0), initial_content_built_for_another_table_depth=init_differs, sig=["season-k", diff.get("table"), diff.get("col")]))
        # summary row
        rk = [r for r, i in zip(tm["final"], tm["final_index"]) if i == k]
        r0 = [r for r, i in zip(t1["final"], t1["final_index"]) if i == 0]
        if bool(rk) != bool(r0):
            res["violations"].append(V("summary-row-presence", None, {"long": bool(rk), "single": bool(r0)}, "both or neither", season=k))
        elif rk:
            a, b = list(rk[0]), list(r0[0])
            a[0] = b[0] = 0
            a[3] = a[3] - off
            if repr(a) != repr(b):
                res["violations"].append(V("summary-row-equals-single-season-run", None, {"long": rk[0], "single": r0[0]}, "equal after re-basing", season=k, initial_content_built_for_another_table_depth=init_differs))
        # witnesses
        if (flux[rows, FX["IrrDay"]] > 0).any():
            hitw["irrigated_season"] = hitw.get("irrigated_season", 0) + 1
            if (spec.get("irr") or {}).get("method") == 4 and flux[rows[0], FX["IrrDay"]] > 0:
                hitw["pre_irrigation_season"] = hitw.get("pre_irrigation_season", 0) + 1
        if (flux[rows, FX["surface_storage"]] > 0).any():
            hitw["bunded_season"] = hitw.get("bunded_season", 0) + 1
        if spec.get("gw"):
            hitw["table_season"] = hitw.get("table_season", 0) + 1
        if mm._param_struct.Seasonal_Crop_List[0].CalendarType == 2:
            hitw["thermal_season"] = hitw.get("thermal_season", 0) + 1
        if k >= 2:
            hitw["season_3plus"] = hitw.get("season_3plus", 0) + 1
    return res


def describe(tier):
    return {
        "rule": "multi-season runs with the off-season skipped (3-4 seasons of scaled crops; thermal and full-length crops over 3 seasons) x 6 irrigation "
                "strategies x initial water x bunds/mulch x water table x words; for EVERY season index k >= 1 the rows of season k in all three daily tables "
                "(step index re-based) and its summary row are compared bitwise with season 0 of a fresh model built from fresh entity objects and started on "
                "season k's planting date (same end date, same weather by date).",
        "bound": "every season k>=1 of every enumerated configuration; product of the stated menus complete",
        "exhaustive": True,
        "witnesses": WITNESSES,
        "assumptions": ["both runs execute the same arithmetic on the same interpreter/numpy build, so equality is bitwise",
                        "thermal crops get an explicit latest-harvest date so that both runs use the same one"],
    }
