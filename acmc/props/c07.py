"""C07 The simulation calendar is exact -- DESIGN 3/C07.

Every enumerated window is run on the real model under a stepping style; the executed trace is recorded by an
instance-level wrapper around `_perform_timestep` (harness side) and compared (a) against direct trace invariants and
(b) element-wise against the reference calendar automaton of acmc/refmodels.py."""
import copy
import datetime as dt
import itertools

import numpy as np
import pandas as pd

from .. import alphabets as A
from .. import spec as S
from ..driver import Sink, sinks_active, watchdog, Timeout, describe_exception, _arr, FX, GX, light_state_key
from ..refmodels import calendar_reference, ref_gdd
from ..runner import empty_result

PID = "C07"
LEVEL = "model_checking"
WITNESSES = ["pre_season_days", "season_jump", "off_season_days", "harvest_by_maturity", "harvest_by_death", "harvest_by_latest_date",
             "end_cuts_season", "new_year_spanning_season", "multi_season", "thermal_maturity", "chunked_stepping", "start_after_planting", "natural_death", "converted_thermal_maturity_checked", "crop_object_used_by_an_earlier_model"]
NONTRIVIAL = ["season_jump", "off_season_days", "harvest_by_death", "harvest_by_latest_date", "end_cuts_season", "new_year_spanning_season",
              "thermal_maturity", "chunked_stepping", "start_after_planting"]

LENGTHS = {7: 0.04, 18: 0.14, 40: 0.3}
ONE = dt.timedelta(days=1)


def D(y, m, d):
    return dt.datetime(y, m, d)


def mk(planting, L, start, end, off, harvest=None, death=None, style="step1", thermal=False, word="normal"):
    return {"planting": planting, "L": L, "start": A._f(start), "end": A._f(end), "off": off, "harvest": harvest,
            "death": death, "style": style, "thermal": thermal, "word": word}


def window_family(planting, L, start_offs, nseasons, off_values, end_kinds):
    mm, dd = (int(x) for x in planting.split("/"))
    p0 = D(2001, mm, dd)
    for so in start_offs:
        start = p0 + dt.timedelta(days=so)
        first = p0 if so <= 0 else D(2002, mm, dd)
        for ns in nseasons:
            last_p = D(first.year + ns - 1, mm, dd)
            mat = last_p + dt.timedelta(days=L - 1)
            latest = last_p + dt.timedelta(days=L + 30)
            nxt = D(last_p.year + 1, mm, dd)
            ends = []
            if "mat" in end_kinds:
                ends += [mat + dt.timedelta(days=d) for d in (-2, -1, 0, 1, 2)]
            if "latest" in end_kinds:
                ends += [latest + dt.timedelta(days=d) for d in (-1, 0, 1)]
            if "next" in end_kinds:
                ends += [nxt + dt.timedelta(days=d) for d in (-2, -1, 0, 1, 2)]
            if "mid" in end_kinds:
                ends += [last_p + dt.timedelta(days=max(1, L // 2))]
            if "far" in end_kinds:
                ends += [latest + dt.timedelta(days=20)]
            for end in ends:
                if end <= start + ONE:
                    continue
                for off in off_values:
                    yield mk(planting, L, start, end, off)


def scenarios(tier, seed=0):
    q = tier == "quick"
    plantings = ["05/01", "12/20", "01/01"] if q else ["05/01", "12/20", "01/01", "12/31", "03/01"]
    lengths = [7, 40] if q else [7, 18, 40]
    out = []
    for planting, L in itertools.product(plantings, lengths):
        # off-season skipped: all start offsets, 1-3 seasons
        out += list(window_family(planting, L, [-400, -3, -1, 0, 1, 3], [1, 2] if q else [1, 2, 3], [False],
                                  ["mat", "next", "mid", "far"] if q else ["mat", "latest", "next", "mid", "far"]))
        # off-season simulated: long runs, fewer of them
        out += list(window_family(planting, L, [-3, 0, 1] if q else [-400, -3, -1, 0, 1, 3], [1] if q else [1, 2], [True],
                                  ["mat", "far"] if q else ["mat", "latest", "next", "far"]))
    if q:
        out = out[::2]
    # leap days
    for off in (False, True):
        out.append(mk("02/20", 18, D(2004, 2, 20), D(2004, 4, 30), off))
        out.append(mk("02/28", 7, D(2004, 2, 29), D(2005, 4, 30), off))
        out.append(mk("01/10", 18, D(2004, 1, 5), D(2004, 2, 29), off))
        out.append(mk("01/10", 40, D(2004, 1, 5), D(2004, 2, 29), off))
        # the end date cuts the (last) season on / around 29 February
        for end in (D(2004, 2, 28), D(2004, 2, 29), D(2004, 3, 1)):
            out.append(mk("02/01", 40, D(2004, 1, 28), end, off))
            out.append(mk("02/20", 18, D(2003, 2, 18), end, off))
            out.append(mk("12/20", 40 if not q else 18, D(2003, 12, 20), end, off))
    # crop death as an environment choice: every death day of the season
    for L in ([7, 18] if q else [7, 18, 40]):
        for k in range(1, L + 1):
            for off in (False, True):
                out.append(mk("05/01", L, D(2001, 4, 28), D(2002, 6, 30), off, death={"*": k}))
                if not q:
                    out.append(mk("12/20", L, D(2001, 12, 20), D(2003, 3, 1), off, death={"0": k}))
    # explicit latest-harvest dates that bind before / at / after maturity
    for L in ([18] if q else [7, 18, 40]):
        for h in (3, L - 2, L - 1, L, L + 1, L + 5):
            if h < 2:
                continue
            hd = D(2001, 5, 1) + dt.timedelta(days=h)
            for off in (False, True):
                out.append(mk("05/01", L, D(2001, 4, 29), D(2002, 7, 15), off, harvest=f"{hd.month:02d}/{hd.day:02d}"))
    # a latest harvest date on the SAME month/day as the planting date (a harvest window of exactly one year), and one day either side
    for off in (False, True):
        for planting, h in (("05/01", "05/01"), ("05/01", "04/30"), ("05/01", "05/02"), ("12/20", "12/20"), ("01/01", "01/01"), ("01/01", "12/31")):
            y = 2001
            mm, dd = (int(x) for x in planting.split("/"))
            out.append(mk(planting, 18 if q else 40, D(y, mm, dd) - dt.timedelta(days=2), D(y + 2, mm, dd) + dt.timedelta(days=60), off, harvest=h))
    # ... and across years whose planting-to-harvest window does / does not contain 29 February (several seasons)
    for off in (False, True):
        for start, end in ((D(2003, 1, 28), D(2005, 4, 30)), (D(2004, 1, 30), D(2006, 4, 30)), (D(2003, 2, 1), D(2004, 12, 30))):
            for h in ("03/05", "03/01", "02/29" if False else "02/28"):
                out.append(mk("02/01", 40, start, end, off, harvest=h))
        out.append(mk("12/20", 40 if not q else 18, D(2002, 12, 20), D(2005, 3, 30), off, harvest="03/02" if not q else "01/05"))
    # the end date falls on the planting month/day of a later year (no season may start on the end date itself), and one day either side
    for off in (False, True):
        for planting, L in (("05/01", 18), ("12/20", 7)):
            mm, dd = (int(x) for x in planting.split("/"))
            for delta in (-1, 0, 1):
                out.append(mk(planting, L, D(2001, mm, dd) - dt.timedelta(days=2), D(2003, mm, dd) + dt.timedelta(days=delta), off))
    # stepping styles
    styles = ["till", "step1", "chunk2", "chunk3", "chunk7", "chunk1000"]
    for style in styles:
        out.append(mk("05/01", 18, D(2001, 4, 27), D(2003, 6, 30), False, style=style))
        out.append(mk("12/20", 7, D(2001, 12, 18), D(2002, 3, 10), True, style=style))
        if not q:
            out.append(mk("05/01", 40, D(2001, 5, 2), D(2003, 5, 20), False, style=style, death={"0": 9}))
    # thermal-time short crop (maturity in degree days) and natural deaths under the dry word
    for off in (False, True):
        for word in (["normal"] if q else ["normal", "warm", "mix"]):
            out.append(mk("05/01", 0, D(2001, 4, 29), D(2002, 8, 30) if not off else D(2001, 9, 30), off, thermal=True, word=word))
    for L in ([40] if q else [18, 40]):
        for off in (False, True):
            out.append(mk("05/01", L, D(2001, 4, 29), D(2002, 7, 30), off, word="dry"))
    # the same crops with their lengths passed as numpy scalars (elements of a parameter array), calendar and thermal time
    for off in (False, True):
        for L in (18, 40):
            sc = mk("05/01", L, D(2001, 4, 29), D(2002, 7, 30), off)
            sc["numpy"] = True
            out.append(sc)
        sc = mk("05/01", 0, D(2001, 4, 29), D(2002, 8, 30) if not off else D(2001, 9, 30), off, thermal=True, word="normal")
        sc["numpy"] = True
        out.append(sc)
    # cumulative degree days that land EXACTLY on the maturity threshold with a live canopy (16 a day x 150 days = 2400, WheatGDD)
    for off in (False, True):
        sc = mk("10/15", 0, D(2001, 10, 12), D(2003, 6, 30) if not off else D(2002, 6, 30), off, thermal=True, word="steady16")
        sc["thermal_crop"] = "WheatGDD"
        out.append(sc)
    # thermal-time crop under degree-day methods 1 and 2 (keyword override; one built-in crop uses 2) with cold days (maximum below the
    # base temperature) and tropical nights before maturity
    for off in (False, True):
        for meth in (1, 2):
            for word in ("mix", "NNCNNNFNNRNNTNN"):
                sc = mk("05/01", 0, D(2001, 4, 29), D(2002, 8, 30) if not off else D(2001, 9, 30), off, thermal=True, word=word)
                sc["gddmethod"] = meth
                out.append(sc)
    # a thermal crop WITHOUT a configured harvest date whose Crop object an earlier model used on warmer weather: nothing that model
    # derived (a default harvest date) may end this run's seasons early
    for off in (False, True):
        for word, before in (("coolnights", "scorch"), ("mix", "hot")):
            sc = mk("05/01", 0, D(2001, 4, 29), D(2002, 12, 30) if not off else D(2001, 12, 30), off, thermal=True, word=word)
            sc["crop_used_before"] = before
            sc["thermal_crop"] = "MaizeGDD"
            out.append(sc)
    # planting / harvest dates written without zero padding ('5/1', '1/5', '5/12'): month first, whatever the day
    for off in (False, True):
        for planting, harvest in (("5/1", None), ("1/5", None), ("5/1", "5/12"), ("5/1", "6/2"), ("12/20", "1/9")):
            L = 18
            mm, dd = (int(x) for x in planting.split("/"))
            out.append(mk(planting, L, D(2001, mm, dd) - dt.timedelta(days=3), D(2003, mm, dd) + dt.timedelta(days=60), off, harvest=harvest))
    # calendar crops CONVERTED to thermal time (SwitchGDD=1): the thermal maturity is the mean over the window's seasons of the degree
    # days accumulated up to the calendar maturity day - computed here by the independent degree-day model from the configured weather;
    # words with nights above the upper temperature ("scorch"), nights below the base temperature ("coolnights"), and "mix"
    for off in (False, True):
        for word in (["scorch", "coolnights"] if q else ["scorch", "coolnights", "mix", "hot"]):
            for nseas in (1, 2, 3):
                end = D(2001 + nseas - 1, 8, 30) if not off else D(2001 + nseas - 1, 7, 25)
                sc = mk("05/01", 40, D(2001, 4, 29), end, off, thermal=True, word=word)
                sc["switch"] = True
                out.append(sc)
    for s in out:
        yield s


def build_spec(scn):
    spec = _build_spec(scn)
    if scn.get("numpy"):
        spec["crop"]["numpy"] = True
    return spec


def _build_spec(scn):
    L = scn["L"]
    if scn.get("switch"):
        cdc = S.scaled_crop_kwargs("Maize", LENGTHS[L])["CDC_CD"] * 0.6
        crop = {"name": "Maize", "planting": scn["planting"], "harvest": scn["harvest"], "scale": LENGTHS[L], "kw": {"CDC_CD": cdc, "SwitchGDD": 1}}
    elif scn["thermal"] and scn.get("thermal_crop"):
        crop = {"name": scn["thermal_crop"], "planting": scn["planting"], "harvest": scn["harvest"], "scale": None, "gddscale": None, "kw": {}}
    elif scn["thermal"]:
        crop = {"name": "MaizeGDD", "planting": scn["planting"], "harvest": scn["harvest"], "scale": None, "gddscale": 0.15, "kw": ({"GDDmethod": scn["gddmethod"]} if scn.get("gddmethod") else {})}
    else:
        # canopy decline slowed a little so that the scaled crop reaches maturity instead of always dying of senescence first
        cdc = S.scaled_crop_kwargs("Maize", LENGTHS[L])["CDC_CD"] * 0.6
        crop = {"name": "Maize", "planting": scn["planting"], "harvest": scn["harvest"], "scale": LENGTHS[L], "kw": {"CDC_CD": cdc}}
    soil = {"type": "Sand" if scn["word"] == "dry" else "SandyLoam", "dz": None, "kw": {}}
    return S.base_spec(crop=crop, soil=soil, start=scn["start"], end=scn["end"], off_season=scn["off"],
                       iwc=S.iwc_for(soil, "WP" if scn["word"] == "dry" else "FC"),
                       weather={"kind": "word", "word": scn["word"], "dev": [], "lead": 0, "trail": 0})


class DeathInjector(Sink):
    """Environment choice: force crop death on day-after-planting k (after the real canopy_cover returned).
    Also observes death as the calendar's environment input: the day-after-planting on which the crop is first
    dead in each season (injected or natural), read from the condition object the real harvest_index step returns."""

    taps = ("canopy_cover", "harvest_index")

    def __init__(self, death, model):
        self.death = death
        self.model = model
        self.observed = {}

    def after(self, name, bound, ret):
        if name == "harvest_index":
            try:
                if ret.crop_dead and ret.growing_season:
                    season = int(self.model._clock_struct.season_counter)
                    self.observed.setdefault(str(season), int(ret.dap))
            except AttributeError:
                pass
            return None
        if not self.death or bound is None:
            return None
        if not bound.get("growing_season"):
            return None
        season = int(self.model._clock_struct.season_counter)
        k = self.death.get(str(season), self.death.get("*"))
        if k is not None and int(ret.dap) == int(k):
            ret.crop_dead = True
        return None


F12_ORIGINS = ("initialize/read_model_parameters.py:read_model_parameters", "initialize/compute_variables.py:compute_variables",
               "initialize/read_model_initial_conditions.py:read_model_initial_conditions")


def run(scn):
    from .. import ensure_repo_on_path

    ensure_repo_on_path()
    res = empty_result()
    spec = build_spec(scn)
    viol = res["violations"]
    wit = res["witness"]

    def hit(k, n=1):
        wit[k] = wit.get(k, 0) + n

    def violate(clause, step, observed, expected, **facts):
        if sum(1 for v in viol if v["clause"] == clause) >= 3:
            return
        facts["sig"] = [clause]
        viol.append({"clause": clause, "step": step, "observed": observed, "expected": expected, "facts": facts})

    trace = []
    states = set()
    model = None
    phase = "build"
    try:
        with watchdog(120):
            if scn.get("crop_used_before"):
                # history: the user's Crop object was first given to a model on WARMER weather (shorter thermal season); the
                # monitored model is built from the same Crop object
                first = copy.deepcopy(spec)
                first["weather"]["word"] = scn["crop_used_before"]
                ent1 = S.make_entities(first)
                m0 = S.make_model(first, ent1)
                m0._initialize()
                ent = S.make_entities(spec)
                ent["crop"] = ent1["crop"]
                model = S.make_model(spec, ent)
                hit("crop_object_used_by_an_earlier_model")
            else:
                model = S.make_model(spec)
            phase = "init"
            model._initialize()
            phase = "step"
            inj = DeathInjector(scn.get("death"), model)
            orig = model._perform_timestep

            def wrapped():
                ck = model._clock_struct
                rec = {"t": int(ck.time_step_counter), "date": pd.Timestamp(ck.step_start_time).to_pydatetime(), "season": int(ck.season_counter),
                       "rows_before": len(model._outputs.final_stats)}
                r = orig()
                rec["rows_after"] = len(model._outputs.final_stats)
                rec["finished"] = bool(r[0].model_is_finished)
                states.add(light_state_key(model))
                trace.append(rec)
                if len(trace) > int(ck.n_steps) + 3:
                    raise Timeout("more transitions than days in the window")
                return r

            model._perform_timestep = wrapped
            with sinks_active([inj]):
                style = scn["style"]
                if style == "till":
                    model.run_model(till_termination=True, initialize_model=False)
                else:
                    k = 1 if style == "step1" else int(style[5:])
                    guard = 0
                    while not model._clock_struct.model_is_finished:
                        model.run_model(num_steps=k, initialize_model=False)
                        guard += 1
                        if guard > 5000:
                            raise Timeout("stepping loop does not terminate")
    except Timeout as e:
        violate("run-terminates", len(trace), {"timeout": str(e), "phase": phase}, "terminates within the window")
        res["transitions"] = len(trace)
        return res
    except BaseException as e:  # noqa: BLE001
        if isinstance(e, (KeyboardInterrupt, SystemExit)):
            raise
        d = describe_exception(e)
        d["phase"] = phase
        if phase == "init":
            # documented rejections and the "no schedulable season" finding are not calendar verdicts
            no_season = d["exc_type"] in ("IndexError", "KeyError") and d["exc_origin"] in F12_ORIGINS
            violate("initialisation-raises" if not no_season else "no-schedulable-season", 0,
                    {"exc": d["exc_type"], "origin": d["exc_origin"], "msg": d["exc_msg"][:120]}, "a window with at least one planting date initialises",
                    exc_type=d["exc_type"], exc_origin=d["exc_origin"], no_season=no_season)
        else:
            violate("run-terminates", len(trace), {"exc": d["exc_type"], "origin": d["exc_origin"], "msg": d["exc_msg"][:160]}, "no exception while stepping",
                    exc_type=d["exc_type"], exc_origin=d["exc_origin"])
        res["aborted"] = d
        res["transitions"] = len(trace)
        return res

    res["transitions"] = len(trace)
    res["evals"] = len(trace)
    res["states"] = b"".join(sorted(states))
    ck = model._clock_struct
    start = S.parse_date(scn["start"])
    end = S.parse_date(scn["end"])
    n = int(ck.n_seasons)
    flux = np.asarray(_arr(model._outputs.water_flux), dtype=float)
    growth = np.asarray(_arr(model._outputs.crop_growth), dtype=float)
    storage = np.asarray(_arr(model._outputs.water_storage), dtype=float)
    crop = getattr(model, "_crop", None) or model.crop   # the model works on a private copy of the crop (calendar fields are computed there)
    # ---- (a) direct trace invariants -----------------------------------------------------------------
    prev = None
    for i, r in enumerate(trace):
        t = r["t"]
        if (r["date"] - start).days != t:
            violate("row-index-is-days-since-start", t, {"date": str(r["date"]), "t": t}, (r["date"] - start).days)
        for name, arr in (("flux", flux), ("growth", growth), ("storage", storage)):
            if int(arr[t, 0]) != t:
                violate("row-carries-its-step-index", t, {"table": name, "value": float(arr[t, 0])}, t)
        if prev is not None and not (r["date"] > prev["date"]):
            violate("dates-strictly-increase", t, str(r["date"]), f"> {prev['date']}")
        r["dap"] = int(growth[t, GX["dap"]])
        r["gs"] = bool(storage[t, 1])
        r["harvest"] = r["rows_after"] > r["rows_before"]
        if r["finished"] and i != len(trace) - 1:
            violate("no-step-after-termination", t, i, len(trace) - 1)
        prev = r
    if len(trace) > int(ck.n_steps):
        violate("at-most-n-steps", None, len(trace), int(ck.n_steps))
    if not trace or not trace[-1]["finished"]:
        violate("run-terminates", None, "not finished", "finished flag after the last transition")
    executed = {r["t"] for r in trace}
    # rows of days that were never executed stay all-zero
    if len(executed) != len(trace):
        violate("each-day-at-most-once", None, len(trace) - len(executed), 0)
    # ---- (b) reference automaton -----------------------------------------------------------------------
    hmd = crop.harvest_date
    if n < 1:
        violate("at-least-one-season-or-rejection", None, n, ">=1")
        return res
    if scn["thermal"]:
        wdf = S.make_weather(spec).set_index("Date")
        tb, tu, meth = float(crop.Tbase), float(crop.Tupp), int(crop.GDDmethod)

        def thermal(date):
            rec = wdf.loc[pd.Timestamp(date)]
            return ref_gdd(meth, tu, tb, float(rec["MaxTemp"]), float(rec["MinTemp"]))

        maturity = float(crop.Maturity)
        if scn.get("switch"):
            # independent conversion: mean over the seasons inside the window (planting date .. day before the next planting date or the
            # end date; seasons not longer than the calendar maturity are left out) of the degree days accumulated up to the calendar
            # maturity day, with the crop table's temperatures and method
            from aquacrop.entities.crops.crop_params import crop_params

            cp = crop_params["Maize"]
            tb, tu, meth = float(cp["Tbase"]), float(cp["Tupp"]), int(cp["GDDmethod"])
            mcd = int(S.scaled_crop_kwargs("Maize", LENGTHS[scn["L"]])["MaturityCD"])
            pm, pdd = (int(x) for x in scn["planting"].split("/"))
            p0 = dt.datetime(start.year, pm, pdd)
            if p0 < start:
                p0 = dt.datetime(start.year + 1, pm, pdd)
            sums = []
            while p0 <= end:
                nxt = dt.datetime(p0.year + 1, pm, pdd)
                last = min(nxt - ONE, end)
                cum, vals, d = 0.0, [], p0
                while d <= last:
                    cum += thermal(d)
                    vals.append(cum)
                    d += ONE
                if len(vals) > mcd:
                    sums.append(vals[mcd])
                p0 = nxt
            exp_m = float(np.mean(sums)) if sums else float("nan")
            hit("converted_thermal_maturity_checked")
            if not (abs(exp_m - maturity) <= 1e-9):
                violate("converted-thermal-maturity", None, {"Maturity": maturity}, {"Maturity": exp_m, "seasons_averaged": len(sums), "calendar_maturity_day": mcd})
            maturity = exp_m
        if scn["harvest"] is None and not scn.get("switch"):
            # no harvest date configured: the default is the first season's days to thermal maturity (this run's weather) + 30 days
            pm_, pd__ = (int(x) for x in scn["planting"].split("/"))
            p1 = dt.datetime(start.year, pm_, pd__)
            if p1 < start:
                p1 = dt.datetime(start.year + 1, pm_, pd__)
            cum_, L1 = 0.0, 0
            try:
                while cum_ <= maturity and L1 < 400:
                    cum_ += thermal(p1 + dt.timedelta(days=L1))
                    L1 += 1
                hh = dt.datetime(1990, pm_, pd__) + dt.timedelta(days=L1 + 30)
                exp_h = f"{hh.month}/{hh.day}"
                if [int(x) for x in str(hmd).split("/")] != [hh.month, hh.day]:
                    violate("default-latest-harvest-date", None, hmd, exp_h)
                    hmd = exp_h
            except KeyError:
                pass    # the weather record ends before the first season matures: the documented rejection decides
        ref, plantings, harvests = calendar_reference(start, end, scn["planting"], hmd, n, scn["off"], maturity, thermal=thermal, death=inj.observed)
    else:
        L = scn["L"]
        exp_h = None
        if scn["harvest"] is None:
            hh = dt.datetime(1990, *[int(x) for x in scn["planting"].split("/")]) + dt.timedelta(days=L + 30)
            exp_h = f"{hh.month}/{hh.day}"
            if hmd != exp_h:
                violate("default-latest-harvest-date", None, hmd, exp_h)
        ref, plantings, harvests = calendar_reference(start, end, scn["planting"], hmd, n, scn["off"], L, death=inj.observed)
    # observed planting dates: configured month/day of consecutive years, the first one >= start
    obs_p = [pd.Timestamp(x).to_pydatetime() for x in ck.planting_dates]
    if obs_p != plantings:
        violate("planting-dates", None, [str(x) for x in obs_p], [str(x) for x in plantings])
    m = min(len(ref), len(trace))
    for i in range(m):
        a, b = trace[i], ref[i]
        got = (a["date"], a["season"], a["dap"], a["gs"], a["harvest"], a["finished"])
        exp = (b["date"], b["season"], b["dap"], b["gs"], b["harvest"], b["finished"])
        if got != exp:
            violate("trace-equals-reference-calendar", a["t"],
                    {"date": str(got[0]), "season": got[1], "dap": got[2], "in_season": got[3], "harvest": got[4], "finished": got[5]},
                    {"date": str(exp[0]), "season": exp[1], "dap": exp[2], "in_season": exp[3], "harvest": exp[4], "finished": exp[5]},
                    style=scn["style"], off=scn["off"], explicit_harvest=scn["harvest"] is not None)
            break
    else:
        if len(ref) != len(trace):
            violate("trace-length", None, len(trace), len(ref))
    if scn.get("death"):
        for r in trace:
            k = scn["death"].get(str(r["season"]), scn["death"].get("*"))
            if r["gs"] and k is not None and r["dap"] == k and inj.observed.get(str(r["season"])) not in (k,) and inj.observed.get(str(r["season"]), 10**9) > k:
                violate("harness-death-injection-not-observed", r["t"], inj.observed, k)
    # ---- witnesses ------------------------------------------------------------------------------------
    if any(r["season"] == -1 for r in trace):
        hit("pre_season_days")
    for a, b in zip(trace, trace[1:]):
        if (b["date"] - a["date"]).days > 1:
            hit("season_jump")
    if any((not r["gs"]) and r["season"] >= 0 for r in trace):
        hit("off_season_days")
    for r in trace:
        if r["harvest"]:
            cond_dead = inj.observed.get(str(r["season"])) == r["dap"]
            if cond_dead:
                hit("harvest_by_death")
                if not scn.get("death"):
                    hit("natural_death")
            elif r["season"] < len(harvests) and harvests[r["season"]] == r["date"] + ONE:
                hit("harvest_by_latest_date")
            else:
                hit("harvest_by_maturity")
                if scn["thermal"]:
                    hit("thermal_maturity")
    if len(model._outputs.final_stats) < n:
        hit("end_cuts_season")
    if any(p.year != h.year for p, h in zip(plantings, harvests)) or any(r["gs"] and r["date"].month == 1 and r["dap"] > 1 for r in trace):
        hit("new_year_spanning_season")
    if n >= 2:
        hit("multi_season")
    if scn["style"].startswith("chunk") or scn["style"] == "till":
        hit("chunked_stepping")
    if plantings and plantings[0].year > start.year and (start - dt.datetime(start.year, plantings[0].month, plantings[0].day)).days > 0:
        hit("start_after_planting")
    return res


def shrink(scn):
    if scn.get("style") != "step1":
        yield {**scn, "style": "step1"}


def describe(tier):
    return {
        "rule": "windows = planting day {05/01, 12/20, 01/01" + ("" if tier == "quick" else ", 12/31, 03/01") + "} x crop length {7" + ("" if tier == "quick" else ",18") + ",40 days} x start offset "
                "{-400,-3,-1,0,+1,+3} x 1-3 seasons x end {maturity-2..+2, latest harvest-1..+1, next planting-2..+2, mid-season, far} x off-season {F,T}"
                + (" (every second window in the quick tier)" if tier == "quick" else "") + "; leap-day windows; crop death forced on EVERY day-after-planting k of the season "
                "(environment choice injected after the real canopy_cover); explicit latest-harvest dates binding before/at/after maturity; six stepping styles "
                "(till_termination, 1, 2, 3, 7, 1000 steps per call); a short thermal-time crop; a degree-day sum landing exactly on the maturity threshold; calendar crops CONVERTED to thermal time (SwitchGDD=1) over 1-3 seasons under words with nights above the upper / below the base temperature, "
                "the converted maturity threshold re-derived by an independent degree-day model from the configured weather; natural deaths under the dry word. Each executed trace "
                "(date, season, days-after-planting, in-season flag, harvest event, finished flag per transition) is checked against direct invariants and "
                "element-wise against a reference calendar automaton (pure date arithmetic). Non-trivial = jump / off-season / death / latest-date / "
                "cut-season / New-Year / thermal / chunked regimes.",
        "bound": "complete over the stated window lattice" + (" /2" if tier == "quick" else "") + "; death day: every k = 1..L",
        "exhaustive": True,
        "witnesses": WITNESSES,
        "assumptions": ["the reference automaton takes the NUMBER of scheduled seasons from the model (the statement does not fix whether a planting date in the last "
                        "partial year is scheduled) and, for the default latest-harvest date, planting + maturity + 30 days",
                        "the trace is recorded by an instance-level wrapper around _perform_timestep"],
    }
