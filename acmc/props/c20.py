"""C20 Disabled features and neutral settings are inert -- DESIGN 3/C20."""
import copy
import datetime as dt
import itertools

from .. import alphabets as A
from .. import spec as S
from ..driver import run_plain, tables_digest
from ..runner import empty_result
from ._pairs import compare_all, table_state_keys, V

PID = "C20"
LEVEL = "model_checking"
WITNESSES = ["single_transformation", "pair_of_transformations", "base_with_runoff", "base_with_irrigation"]
NONTRIVIAL = ["single_transformation", "pair_of_transformations"]

BASES = {
    "rainfed_clay": A._b(soil="Clay", word="showers", win="w2"),
    "rainfed_off": A._b(soil="ClayLoam", word="wet", win="w1", off=True),
    "rainfed_gw": A._b(soil="SandyLoam", word="mix", gw="1.5", dz="deep30"),
    "smt": A._b(soil="SandyLoam", word="dry", irr="smt", iwc="WP"),
    "interval": A._b(soil="Loam", word="mix", irr="int3"),
    "net": A._b(soil="Sand", word="dry", irr="net80", iwc="WP"),
    "const": A._b(soil="Clay", word="normal", irr="const8e70"),
    "sched_bunds": A._b(soil="Paddy", word="showers", irr="sched", field="bunds50w20", crop="rice.2", iwc="SAT"),
    # shallow ponds behind bunds that evaporation uses up within a day or two (rainfed, slowly draining soil, showers)
    "rainfed_bunds_paddy": A._b(soil="Paddy", word="showers", irr="none", field="bunds200", crop="rice.2", iwc="SAT"),
    "rainfed_bunds_clay": A._b(soil="Clay", word="normal", irr="none", field="bunds50w20", crop="maize.2", iwc="FC", win="w2"),
    # bunds in the FALLOW management only, window opening before the planting date (day 1 is a fallow day behind bunds)
    "fallow_bunds_pre_season": A._b(soil="ClayLoam", word="normal", win="w2", off=True, fallow="bunds50w20"),
    "fallow_bunds_dry_pre_season": A._b(soil="Clay", word="dry", win="w2", off=True, fallow="bunds200", irr="smt"),
    "const_wet30": A._b(soil="Loam", word="normal", irr="const8wet30"),
    "smt_wet40": A._b(soil="SandyLoam", word="dry", irr="smt_wet40", iwc="Pct50"),
}
# thermal-time crops whose first season matures much later (SoybeanGDD 195 d, PaddyRiceGDD 176 d under "normal") or earlier (WheatGDD 128 d)
# than the nominal calendar length in the crop table (133 / 104 / 197 d): the default latest harvest date is weather-derived
for _n in ("SoybeanGDD", "PaddyRiceGDD", "WheatGDD"):
    A.CROPS.setdefault(_n, {"name": _n, "scale": None})
THERMAL_BASES = {
    "thermal_soybean": (A._b(soil="Loam", word="normal", crop="SoybeanGDD", win="w1"), 260),
    "thermal_rice_off": (A._b(soil="ClayLoam", word="normal", crop="PaddyRiceGDD", win="w2", off=True, iwc="SAT"), 250),
    "thermal_wheat_smt": (A._b(soil="SandyLoam", word="mix", crop="WheatGDD", win="w1", irr="smt"), 200),
}


def _late_start_leap():
    """A thermal crop in a window that opens AFTER the sowing day of its start year, with a 29 February before the first sowing day
    (2004/05/01); the second season is cool (cut by the latest harvest date), so a harvest date that is one day off changes results."""
    s = A.catalogue_spec("MaizeGDD", word="hot", start="2003/06/01", end="2005/12/30")
    s["weather"]["blocks"] = [[700, 930, "chilly"]]
    return s


THERMAL_BASES["thermal_maize_late_start_leap"] = _late_start_leap
A.IRR.setdefault("smt_wet40", {"method": 1, "kw": {"SMT": [70] * 4, "WetSurf": 40, "AppEff": 90}})


def method(spec):
    return (spec.get("irr") or {}).get("method", 0)


def _field(spec, key):
    return dict(spec.get(key) or {})


def t_mulch_params_off(key):
    def f(spec):
        fm = _field(spec, key)
        if fm.get("mulches"):
            return None
        fm.update({"mulches": False, "mulch_pct": 80, "f_mulch": 0.9})
        return {**spec, key: fm}
    return f


def t_bund_params_off(key):
    def f(spec):
        fm = _field(spec, key)
        if fm.get("bunds"):
            return None
        fm.update({"bunds": False, "z_bund": 0.3, "bund_water": 50})
        return {**spec, key: fm}
    return f


def t_switch_off_other_spelling(key, spelling):
    """The feature switches written as 0 (int) or numpy.False_ instead of False, with non-neutral parameters behind them."""
    def f(spec):
        fm = _field(spec, key)
        if fm.get("bunds") or fm.get("mulches") or fm.get("curve_number_adj") or fm.get("sr_inhb"):
            return None
        fm.update({"bunds": spelling, "z_bund": 0.25, "bund_water": 40, "mulches": spelling, "mulch_pct": 70, "f_mulch": 0.8,
                   "curve_number_adj": spelling, "curve_number_adj_pct": 25, "sr_inhb": spelling})
        return {**spec, key: fm}
    return f


def t_cn_pct_off(key, pct):
    def f(spec):
        fm = _field(spec, key)
        if fm.get("curve_number_adj"):
            return None
        fm.update({"curve_number_adj": False, "curve_number_adj_pct": pct})
        return {**spec, key: fm}
    return f


def t_mulch_neutral(key, pct, fmul):
    def f(spec):
        fm = _field(spec, key)
        if fm.get("mulches"):
            return None
        fm.update({"mulches": True, "mulch_pct": pct, "f_mulch": fmul})
        return {**spec, key: fm}
    return f


def t_other_strategy_params(spec):
    ir = copy.deepcopy(spec.get("irr") or {"method": 0, "kw": {}})
    m = ir["method"]
    kw = ir.setdefault("kw", {})
    if m != 1:
        kw["SMT"] = [55, 45, 35, 25]
    if m != 2:
        kw["IrrInterval"] = 5
    if m != 5:
        kw["depth"] = 17.0
    if m != 4:
        kw["NetIrrSMT"] = 35.0
    return {**spec, "irr": ir}


def t_schedule_when_not_selected(spec):
    ir = copy.deepcopy(spec.get("irr") or {"method": 0, "kw": {}})
    if ir["method"] == 3:
        return None
    ir["schedule"] = [[spec["start"], 30.0], [A._f(A._d(spec["start"]) + __import__("datetime").timedelta(days=10)), 22.0]]
    return {**spec, "irr": ir}


def t_eff_wet_rainfed(spec):
    if method(spec) != 0:
        return None
    return {**spec, "irr": {"method": 0, "kw": {"AppEff": 40, "WetSurf": 30}}}


def t_wetsurf_net(spec):
    if method(spec) != 4:
        return None
    ir = copy.deepcopy(spec["irr"])
    ir["kw"]["WetSurf"] = 30
    return {**spec, "irr": ir}


def t_rainfed_as(kind):
    def f(spec):
        if method(spec) != 0:
            return None
        if kind == "depth0":
            ir = {"method": 5, "kw": {"depth": 0}}
        elif kind == "empty_schedule":
            ir = {"method": 3, "kw": {}, "schedule": []}
        elif kind == "default_schedule":
            s0 = A._d(spec["start"])
            ir = {"method": 3, "kw": {}, "default_schedule_after_inplace_fill": [[A._f(s0 + __import__("datetime").timedelta(days=k)), 25.0] for k in (6, 12, 370)]}
        elif kind == "maxirr0_smt":
            ir = {"method": 1, "kw": {"SMT": [80] * 4, "MaxIrr": 0}}
        elif kind == "maxirr0_const":
            ir = {"method": 5, "kw": {"depth": 12, "MaxIrr": 0}}
        elif kind == "maxseason0_int":
            ir = {"method": 2, "kw": {"IrrInterval": 2, "MaxIrrSeason": 0}}
        elif kind == "maxseason0_smt":
            ir = {"method": 1, "kw": {"SMT": [90] * 4, "MaxIrrSeason": 0}}
        return {**spec, "irr": ir}
    return f


def t_explicit_default_harvest(spec):
    if spec["crop"].get("harvest") is not None:
        return None
    mm, dd = (int(x) for x in spec["crop"]["planting"].split("/"))
    if spec["crop"]["name"].endswith("GDD"):
        # thermal-time crop: days until the cumulative degree days of the FIRST season exceed the crop's maturity requirement, from the
        # configured weather and the crop table's temperatures (independent degree-day model)
        from aquacrop.entities.crops.crop_params import crop_params
        from ..refmodels import ref_gdd

        cp = {**crop_params[spec["crop"]["name"]], **(spec["crop"].get("kw") or {})}
        wdf = S.make_weather(spec).set_index("Date")
        d = S.parse_date(spec["start"])
        while (d.month, d.day) != (mm, dd):
            d += dt.timedelta(days=1)
        cum, L = 0.0, 0
        while cum <= float(cp["Maturity"]):
            rec = wdf.loc[d + dt.timedelta(days=L)]
            cum += ref_gdd(int(cp["GDDmethod"]), float(cp["Tupp"]), float(cp["Tbase"]), float(rec["MaxTemp"]), float(rec["MinTemp"]))
            L += 1
    else:
        L = A.crop_length_days(spec["crop"])
    h = dt.datetime(1990, mm, dd) + dt.timedelta(days=L + 30)
    crop = dict(spec["crop"])
    crop["harvest"] = f"{h.month}/{h.day}"
    return {**spec, "crop": crop}


TRANSFORMS = {
    "mulch_params_without_mulches": t_mulch_params_off("field"),
    "fallow_mulch_params_without_mulches": t_mulch_params_off("fallow"),
    "bund_params_without_bunds": t_bund_params_off("field"),
    "switches_off_written_as_int0": t_switch_off_other_spelling("field", 0),
    "switches_off_written_as_numpy_false": t_switch_off_other_spelling("field", "np_false"),
    "fallow_switches_off_written_as_numpy_false": t_switch_off_other_spelling("fallow", "np_false"),
    "fallow_bund_params_without_bunds": t_bund_params_off("fallow"),
    "cn_pct_plus20_without_flag": t_cn_pct_off("field", 20),
    "cn_pct_minus20_without_flag": t_cn_pct_off("field", -20),
    "fallow_cn_pct_plus20_without_flag": t_cn_pct_off("fallow", 20),
    "mulches_on_pct0": t_mulch_neutral("field", 0, 0.7),
    "mulches_on_f0": t_mulch_neutral("field", 60, 0.0),
    "fallow_mulches_on_pct0": t_mulch_neutral("fallow", 0, 0.7),
    "other_strategy_params": t_other_strategy_params,
    "schedule_when_not_selected": t_schedule_when_not_selected,
    "appeff_wetsurf_rainfed": t_eff_wet_rainfed,
    "wetsurf_net_irrigation": t_wetsurf_net,
    "rainfed_as_depth0": t_rainfed_as("depth0"),
    "rainfed_as_empty_schedule": t_rainfed_as("empty_schedule"),
    "rainfed_as_default_schedule_after_another_was_filled_in_place": t_rainfed_as("default_schedule"),
    "rainfed_as_maxirr0_smt": t_rainfed_as("maxirr0_smt"),
    "rainfed_as_maxirr0_const": t_rainfed_as("maxirr0_const"),
    "rainfed_as_maxseason0_interval": t_rainfed_as("maxseason0_int"),
    "rainfed_as_maxseason0_smt": t_rainfed_as("maxseason0_smt"),
    "explicit_default_harvest_date": t_explicit_default_harvest,
}


def scenarios(tier, seed=0):
    names = list(TRANSFORMS)
    for b in list(BASES) + list(THERMAL_BASES):
        for t in names:
            yield {"base": b, "ts": [t]}
        if tier != "quick":
            for t1, t2 in itertools.combinations(names, 2):
                yield {"base": b, "ts": [t1, t2]}
        else:
            for t1, t2 in list(itertools.combinations(names, 2))[:: 7]:
                yield {"base": b, "ts": [t1, t2]}


_BASE = {}


def base_for(b):
    if b not in _BASE:
        if b in THERMAL_BASES and callable(THERMAL_BASES[b]):
            spec = THERMAL_BASES[b]()
        elif b in THERMAL_BASES:
            cfg, span = THERMAL_BASES[b]
            spec = A.to_spec(cfg)
            nseas = A.WINDOWS[cfg["win"]]["seasons"]
            e = S.parse_date(spec["start"]).replace(year=S.parse_date(spec["start"]).year + nseas - 1) + dt.timedelta(days=span + 10)
            spec["end"] = S.fmt_date(e)          # long enough for the weather-derived season plus its 30 days
        else:
            spec = A.to_spec(BASES[b])
        t, a, _ = run_plain(spec)
        if a:
            raise RuntimeError(f"C20 base run aborted: {a}")
        _BASE[b] = (spec, t, tables_digest(t))
    return _BASE[b]


def run(scn):
    res = empty_result()
    spec, tb, dg = base_for(scn["base"])
    p = copy.deepcopy(spec)
    for t in scn["ts"]:
        p2 = TRANSFORMS[t](p)
        if p2 is None:
            res["notes"].append("transformation not applicable to this base")
            return res
        p = copy.deepcopy(p2)
    t, a, _ = run_plain(p)
    res["evals"] = 1
    wit = res["witness"]
    wit["single_transformation" if len(scn["ts"]) == 1 else "pair_of_transformations"] = 1
    from ..driver import FX

    if (tb["flux"][:, FX["Runoff"]] > 0).any():
        wit["base_with_runoff"] = 1
    if (tb["flux"][:, FX["IrrDay"]] > 0).any():
        wit["base_with_irrigation"] = 1
    if a:
        res["aborted"] = a
        res["violations"].append(V("neutral-setting-raises", None, {"exc": a.get("exc_type"), "origin": a.get("exc_origin"), "msg": (a.get("exc_msg") or "")[:160]}, "runs like the base",
                                   transforms=scn["ts"], base=scn["base"], sig=["raise", scn["ts"][-1]]))
        return res
    res["states"], res["transitions"] = table_state_keys(t)
    if tables_digest(t) != dg:
        d = compare_all(t, tb)
        res["violations"].append(V("neutral-setting-is-inert", (d or {}).get("row"), {"transforms": scn["ts"], "first_difference": d}, "bitwise equal to the base run",
                                   transforms=scn["ts"], base=scn["base"], sig=["differs"] + scn["ts"]))
    return res


def describe(tier):
    return {
        "rule": f"{len(BASES) + len(THERMAL_BASES)} bases (rainfed on clay / with off-season / with a water table; threshold; interval; net; constant depth; schedule with bunds; constant depth and threshold irrigation with a partially wetted surface; rainfed bunds; three THERMAL-TIME crops whose weather-derived first season is much longer or shorter than the nominal calendar length in the crop table, the explicit default harvest date there computed by the independent degree-day model) x each of 25 neutral "
                "transformations (mulch / bund / CN-percentage parameters with the feature off, in the season and the fallow struct; parameters of non-selected strategies "
                "incl. a schedule; efficiency and wetted fraction without irrigation; mulches on with cover 0 or factor 0; depth 0, empty schedule, daily or seasonal "
                "maximum 0 (each equivalent to rainfed); explicit default latest-harvest date) alone and " + ("every 7th pair" if tier == "quick" else "ALL pairs") + "; all four tables bitwise equal to the base run.",
        "bound": "singles complete; pairs " + ("1/7" if tier == "quick" else "complete (300 per base)"),
        "exhaustive": True,
        "witnesses": WITNESSES,
        "assumptions": ["a transformation is skipped on a base to which it does not apply (e.g. 'depth 0 = rainfed' on an irrigated base)"],
    }
