"""C03 Soil water content and ponding stay within physical limits -- DESIGN 3/C03."""
from . import _water as W
from .. import alphabets as A
from ..monitors.water import C03Bounds

PID = "C03"
LEVEL = "model_checking"
WITNESSES = ["air_dry_compartment", "saturated_compartment", "below_wilting_point", "ponded_state", "pond_above_half_bund_height"]

EXTREME_BASES = [
    A._b(soil="Sand", iwc="WP", word="dry", off=True, win="w3", crop="cotton.2"),      # multi-year drought
    A._b(soil="Clay", iwc="SAT", word="wet", field="bunds50w500", fallow="bunds50w20", crop="rice.2", off=True, win="w1"),
    A._b(soil="custom3", iwc="SAT", word="wet", dz="nonuni", crop="potato.2"),
    A._b(soil="SandyLoam", iwc="WP", gw="0.3", dz="deep30", word="dry"),
    A._b(soil="Paddy", iwc="SAT", gw="0.8", dz="deep30", word="wet", field="bunds200", crop="rice.2"),
    # net irrigation on layers of contrasting texture with roots past the layer boundary
    A._b(soil="sandoverclay", iwc="FC", irr="net80", word="dry", crop="maize.2"),
    A._b(soil="clayoversand", iwc="FC", irr="net100", word="dry", crop="cotton.2"),
]

NONTRIVIAL = ['air_dry_compartment', 'saturated_compartment', 'ponded_state', 'pond_above_half_bund_height']


def scenarios(tier, seed=0):
    yield from W.water_scenarios(tier, full=(tier != "quick"))
    yield from W.config_scenarios(EXTREME_BASES, A.WATER_MENUS, 1 if tier == "quick" else 1)
    if tier != "quick":
        yield from W.weather_scenarios(EXTREME_BASES[1:], stride=2, symbols=("S", "D"))


def run(scn):
    if scn["kind"] == "config" and scn.get("base") is not None:
        pass
    return W.run_with(scn, C03Bounds, PID)


def describe(tier):
    d = 1 if tier == "quick" else 2
    return {
        "rule": "C01's configuration/weather set plus 7 extreme bases (3-season drought with off-season on air-dry-prone sand, SAT starts "
                "under the wet word with bunds filled above their height, low-conductivity layered soil, tables at 0.3/0.8 m, net irrigation on sand-over-clay / clay-over-sand) and their "
                "single deviations; theta in [air-dry, saturation] per compartment (layer values of the initialised profile), "
                "0 <= ponding <= bund height (0 without bunds) and Wr >= 0 are evaluated on the initial state and after every transition. "
                "Non-trivial = at least one extreme-regime witness hit.",
        "bound": f"config deviations d<={d} (extreme bases d<=1); weather deviations <= {1 if tier == 'quick' else 2} days",
        "exhaustive": True,
        "witnesses": WITNESSES,
        "assumptions": ["initial water content between wilting point and saturation (one entry per soil layer)", "float slack 1e-9"],
    }
