"""C12 Configured parameters and weather stay read-only while stepping -- DESIGN 3/C12."""
import itertools

from .. import alphabets as A
from ..driver import execute
from ..monitors.readonly import C12ReadOnly
from ..runner import result_from_ctx
from ._water import scenario_facts

PID = "C12"
LEVEL = "model_checking"
WITNESSES = ["z_cn_off_boundary", "z_germ_off_boundary", "profile_deeper_than_3m", "crop_copy_updated_at_its_season_start", "runoff_day", "season_start"]
NONTRIVIAL = ["z_cn_off_boundary", "z_germ_off_boundary", "profile_deeper_than_3m", "crop_copy_updated_at_its_season_start"]

Z = [0.05, 0.1, 0.25, 0.3, 0.45, 1.0]


def scenarios(tier, seed=0):
    dzs = ["d12", "nonuni", "deep30"] if tier == "quick" else ["d12", "nonuni", "deep30", "d15"]
    crops = ["maize.2", "rice.2"] if tier == "quick" else ["maize.2", "rice.2", "cotton.2", "potato.2"]
    # (a) every z_cn x z_germ x thickness list x adj_cn, wet words so that the curve-number branch runs
    for zcn, zgerm, dz, adj, ck in itertools.product(Z, Z, dzs, [0, 1], crops):
        if tier == "quick" and (Z.index(zcn) + Z.index(zgerm)) % 2 == 1 and zcn != zgerm:
            continue
        c = A._b(crop=ck, dz=dz, word="showers", win="w2", soil="ClayLoam")
        c["soilkw"] = {"z_cn": zcn, "z_germ": zgerm, "adj_cn": adj}
        yield {"kind": "config", "config": c}
    # (b) management / groundwater / off-season menus with off-boundary depths
    menus = {
        "irr": ["none", "smt", "sched", "sched_cap30", "smt_cap60", "net80", "const8e70"],
        "field": ["none", "bunds50w20", "bunds50w500", "bunds_mulch", "mulch", "cn+20", "parked"],   # incl. an initial pond above the bund height
        "fallow": ["none", "bunds50w20", "bunds50w500", "parked"],
        "gw": ["none", "0.8", "rising_v", "falling_c", "rising_above_zmin_v"],
        "off": [False, True],
        "soil": ["ClayLoam", "Paddy", "custom3"],
        "win": ["w2", "w3"],
    }
    base = A._b(crop="maize.2", dz="nonuni", word="showers", win="w2", soil="ClayLoam")
    base["soilkw"] = {"z_cn": 0.25, "z_germ": 0.45}
    for c in A.within(base, menus, 1 if tier == "quick" else 2):
        if c["off"] and c["win"] == "w3":
            continue
        yield {"kind": "config", "config": c}
    # (b2) crop keyword options under words with and without drought (early senescence, stress adjustments)
    for opt in A.CROPOPT:
        for word in ("dry", "mix"):
            for ck in (("maize.2",) if tier == "quick" else ("maize.2", "cotton.2", "potato.2")):
                c = A._b(crop=ck, word=word, win="w2", soil="SandyLoam", iwc="Pct50", cropopt=opt)
                yield {"kind": "config", "config": c}
    # (b2') crops with unusual built-in parameters on the fields they are grown on: paddy rice (placeholder aeration lag 1e10, transplanted)
    # on a bunded, ponded paddy soil; the full-year crops
    for ck, soil, field, irr, word in (("rice.2", "Paddy", "bunds200", "const40e40", "showers"), ("rice.2", "Clay", "bunds50w20", "none", "wet"), ("rice.2", "Paddy", "bunds_mulch", "int3", "mix")):
        for off in (False, True):
            c = A._b(crop=ck, word=word, win="w2", soil=soil, field=field, irr=irr, iwc="SAT", off=off)
            yield {"kind": "config", "config": c}
    for name in ("PaddyRice", "localpaddy") if tier != "quick" else ("PaddyRice",):
        spec = A.catalogue_spec(name, word="wet", soil="Paddy", field="bunds200", iwc="SAT", irr="smt")
        yield {"kind": "spec", "spec": spec, "label": ["paddy-full-length", name]}
    # (b2'') the top-soil depth of the root-zone totals (Soil z_top) off a compartment boundary, roots growing beyond it
    for ztop, dz, ck in itertools.product((0.25, 0.13, 0.37), ("d12", "nonuni", "d15x9"), ("maize.2", "cotton.2")):
        c = A._b(crop=ck, dz=dz, word="showers", win="w2", soil="ClayLoam", irr="smt")
        c["soilkw"] = {"z_top": ztop}
        yield {"kind": "config", "config": c}
    # (b3) extreme records on simulated days (reference ET below the 0.1 mm floor of the file reader, frost, a tropical night, a storm):
    # a per-day "sanity" adjustment may not be written back into the stored records
    for off in (False, True):
        for irr in ("none", "smt"):
            c = A._b(crop="maize.2", word="normal", win="w2", soil="SandyLoam", off=off, irr=irr)
            c["dev"] = [[1, "Z"], [6, "Z"], [7, "L"], [11, "F"], [15, "T"], [18, "S"], [370, "Z"], [376, "F"]]
            yield {"kind": "config", "config": c}
    # (c) thermal crops re-derive their calendar from the weather matrix at every season start; deep-rooted crops deepen the profile
    names = ["MaizeGDD", "AlfalfaGDD", "WheatGDD"] if tier == "quick" else A.thermal_crop_names()
    for name in names:
        for zcn in ([0.25] if tier == "quick" else [0.25, 0.3]):
            spec = A.catalogue_spec(name, word="hot", soil="ClayLoam", soilkw={"z_cn": zcn, "z_germ": 0.45}, end="2003/04/20")
            yield {"kind": "spec", "spec": spec, "label": ["thermal", name, zcn]}
    # degree-day methods 1 and 2 (keyword override) under a word with days outside [Tbase, Tupp], 3 seasons
    for name in (["MaizeGDD", "WheatGDD"] if tier == "quick" else names):
        for meth in (1, 2):
            spec = A.catalogue_spec(name, word="hot", soil="Loam", cropkw={"GDDmethod": meth}, end="2004/04/20",
                                    dev=[[d, "F"] for d in (400, 401, 790)] + [[d, "T"] for d in (405, 406, 795)])
            yield {"kind": "spec", "spec": spec, "label": ["thermal-method", name, meth]}
    for name in (["Maize", "Cotton"] if tier == "quick" else ["Maize", "Cotton", "Wheat", "Sunflower", "Soybean"]):
        spec = A.catalogue_spec(name, word="showers", soil="Loam", soilkw={"z_cn": 0.45, "z_germ": 0.25}, off=True, end="2001/12/30")
        yield {"kind": "spec", "spec": spec, "label": ["deepened", name]}


def run(scn):
    spec = scn["spec"] if scn["kind"] == "spec" else A.to_spec(scn["config"])
    ctx = execute(spec, [C12ReadOnly()], pid=PID, timeout=180)
    ab = ctx.aborted
    if ab and ab.get("exc_type") == "ValueError" and "read-only" in (ab.get("exc_msg") or ""):
        ctx.violate("write-into-read-only-parameter", ab.get("step"), observed={"origin": ab.get("exc_origin"), "line": ab.get("exc_line")},
                    expected="no write into configured arrays", origin=ab.get("exc_origin"))
    facts = scenario_facts(spec)
    for v in ctx.violations:
        for k, val in facts.items():
            v["facts"].setdefault(k, val)
        v["facts"]["sig"] = [v["clause"], v["facts"].get("what") or v["facts"].get("origin")]
    return result_from_ctx(ctx)


def describe(tier):
    return {
        "rule": "every (z_cn, z_germ) pair of the menu {0.05,0.1,0.25,0.3,0.45,1.0} x thickness lists x adj_cn {0,1} x crops under a rainy word"
                + (" (half of the off-diagonal pairs in the quick tier)" if tier == "quick" else "") + "; management / groundwater / off-season / soil / window menus within d "
                "deviations of an off-boundary base; thermal crops over 2 seasons (calendar re-derived from the weather matrix at each season start) and "
                "deep-rooted crops (deepened profiles, > 3 m for AlfalfaGDD); content hashes of all profile arrays, soil scalars, the profile table, the four "
                "management structs, the water-table series, the weather matrix and table and the CO2 table are compared with their initial values after "
                "EVERY transition; per-season crop copies may change only on the transition entering their season. A ValueError 'assignment destination is "
                "read-only' raised from a write is the same violation.",
        "bound": "d<=" + ("1" if tier == "quick" else "2") + " on the management menus; (z_cn,z_germ) lattice " + ("half" if tier == "quick" else "complete"),
        "exhaustive": True,
        "witnesses": WITNESSES,
        "assumptions": ["hashes are SHA-256 over raw float bytes (bitwise)", "the fallow filler crop (not a season's crop) is not covered by the statement"],
    }
