"""C16 Every valid configuration runs to completion with finite outputs -- DESIGN 3/C16."""
import copy
import itertools

import numpy as np

from .. import alphabets as A
from .. import spec as S
from ..driver import run_plain, FX, GX, FLUX_COLS, GROWTH_COLS
from ..runner import empty_result
from ._pairs import table_state_keys, executed_rows, V

PID = "C16"
LEVEL = "model_checking"
WITNESSES = ["completed_run", "documented_rejection", "thermal_crop_run", "layered_soil_run", "option_deviation_run", "window_deviation_run", "leap_day_window", "end_around_last_maturity", "input_objects_used_before"]
NONTRIVIAL = ["documented_rejection", "thermal_crop_run", "layered_soil_run", "option_deviation_run", "window_deviation_run", "leap_day_window"]

SOILS15 = ["Clay", "ClayLoam", "Default", "Loam", "LoamySand", "Sand", "SandyClay", "SandyClayLoam", "SandyLoam", "Silt", "SiltClayLoam", "SiltLoam", "SiltClay", "Paddy", "ac_TunisLocal"]
for s_ in SOILS15:
    A.SOILS.setdefault(s_, {"type": s_})
STRATS = ["none", "smt", "int3", "sched", "net80", "const8e70"]

DOCUMENTED = [
    ("ValueError", "core.py:"),
    ("ValueError", "initialize/read_weather_inputs.py:read_weather_inputs"),
    ("ValueError", "initialize/read_clocks_parameters.py:check_max_simulation_days"),
    ("AssertionError", "initialize/compute_crop_calendar.py:compute_crop_calendar", "not enough growing degree days"),
    ("AssertionError", "initialize/compute_crop_calendar.py:compute_crop_calendar", "longer than 1 year"),
    ("AssertionError", "timestep/reset_initial_conditions.py:reset_initial_conditions", "not enough growing degree days"),
    ("AssertionError", "timestep/reset_initial_conditions.py:reset_initial_conditions", "longer than 1 year"),
    # the same "too few growing degree days to mature" rejection, raised by the calendar-to-thermal-time conversion (SwitchGDD=1)
    ("AssertionError", "utils/prepare_gdd.py:prepare_gdd", "not enough growing degree days"),
]


def documented(ab):
    for d in DOCUMENTED:
        if ab.get("exc_type") == d[0] and (ab.get("exc_origin") or "").startswith(d[1]):
            if len(d) < 3 or d[2] in (ab.get("exc_msg") or ""):
                return True
    return False


def cat(name, soil="SandyLoam", irr="none", **kw):
    iwc = kw.pop("iwc", "WP" if irr == "net80" else "FC")
    return A.catalogue_spec(name, word=kw.pop("word", "warm"), soil=soil, irr=irr, iwc=iwc, **kw)


OPTION_DEVS = {
    "ETadj0": lambda s: _crop(s, ETadj=0),
    "PlantMethod0": lambda s: _crop(s, PlantMethod=0),
    "PlantMethod1": lambda s: _crop(s, PlantMethod=1),
    "CropType1": lambda s: _crop(s, CropType=1),
    "CropType2": lambda s: _crop(s, CropType=2),
    "CropType3": lambda s: _crop(s, CropType=3),
    "GDDmethod1": lambda s: _crop(s, GDDmethod=1),
    "GDDmethod2": lambda s: _crop(s, GDDmethod=2),
    "GDDmethod3": lambda s: _crop(s, GDDmethod=3),
    "Determinant0": lambda s: _crop(s, Determinant=0),
    "Determinant1": lambda s: _crop(s, Determinant=1),
    "SwitchGDD1": lambda s: _crop(s, SwitchGDD=1),
    # conversion to thermal time with a yield formation shorter (in days) than one warm day's degree days
    "SwitchGDD1_short_yield_formation": lambda s: _crop(s, SwitchGDD=1, YldFormCD=15) if not s["crop"]["name"].endswith("GDD") else None,
    # shape parameters at the ends of their documented ranges (0 = linear response of root deepening to stomatal stress)
    "fshape_ex0": lambda s: _crop(s, fshape_ex=0),
    "fshape_ex_positive": lambda s: _crop(s, fshape_ex=2.0),
    "fshape_r_b_ends": lambda s: _crop(s, fshape_r=1.0, fshape_b=1.0),
    "PolStress0": lambda s: _crop(s, PolHeatStress=0, PolColdStress=0, TrColdStress=0),
    # field features MERGE into the field management already chosen (pairs of deviations put two features on the same field)
    "bunds_z0": lambda s: _fieldkw(s, "field", bunds=True, z_bund=0.0),
    "bunds_z0.0005": lambda s: _fieldkw(s, "field", bunds=True, z_bund=0.0005, bund_water=10),
    "bunds_z0.2": lambda s: _fieldkw(s, "field", bunds=True, z_bund=0.2, bund_water=500),
    "fallow_bunds": lambda s: _fieldkw(s, "fallow", bunds=True, z_bund=0.1, bund_water=30),
    "mulches": lambda s: _fieldkw(s, "field", mulches=True, mulch_pct=100, f_mulch=1.0),
    "bunds_and_mulches": lambda s: _fieldkw(s, "field", bunds=True, z_bund=0.15, bund_water=0, mulches=True, mulch_pct=70, f_mulch=0.5),
    "fallow_bunds_and_mulches": lambda s: {**_fieldkw(s, "fallow", bunds=True, z_bund=0.15, bund_water=25, mulches=True, mulch_pct=70, f_mulch=0.5), "off_season": True},
    "sr_inhb": lambda s: _fieldkw(s, "field", sr_inhb=True),
    "cn_adj": lambda s: _fieldkw(s, "field", curve_number_adj=True, curve_number_adj_pct=-20),
    "gw_const": lambda s: {**s, "gw": A.resolve_gw(A.GW["1.5"], s["start"])},
    "gw_series_c": lambda s: {**s, "gw": A.resolve_gw(A.GW["rising_c"], s["start"])},
    "gw_series_v": lambda s: {**s, "gw": A.resolve_gw(A.GW["rising_v"], s["start"])},
    "gw_late_v": lambda s: {**s, "gw": A.resolve_gw({"method": "Variable", "series": [[10, 2.0], [60, 0.9]]}, s["start"])},
    "gw_late_c": lambda s: {**s, "gw": A.resolve_gw({"method": "Constant", "series": [[10, 2.0], [60, 0.9]]}, s["start"])},
    "gw_early_c": lambda s: {**s, "gw": A.resolve_gw({"method": "Constant", "series": [[-40, 2.0], [30, 1.1]]}, s["start"])},
    "gw_surface": lambda s: {**s, "gw": A.resolve_gw({"method": "Constant", "dates": ["{start}"], "values": [0.05]}, s["start"])},
    "iwc_sat": lambda s: {**s, "iwc": S.iwc_for(s["soil"], "SAT")},
    "iwc_wp": lambda s: {**s, "iwc": S.iwc_for(s["soil"], "WP")},
    "iwc_pct": lambda s: {**s, "iwc": S.iwc_for(s["soil"], "Pct30")},
    "iwc_depth": lambda s: {**s, "iwc": S.iwc_for(s["soil"], "Depth")},
    "iwc_num": lambda s: {**s, "iwc": {"wc_type": "Num", "method": "Depth", "depth_layer": [0.1, 1.0], "value": [0.2, 0.3]}},
    # depth points at / below the bottom of the simulated profile (a probe deeper than the roots), every type
    "iwc_pct_deep": lambda s: {**s, "iwc": {"wc_type": "Pct", "method": "Depth", "depth_layer": [0.3, 1.2, 3.5], "value": [40.0, 60.0, 90.0]}},
    "iwc_prop_deep": lambda s: {**s, "iwc": {"wc_type": "Prop", "method": "Depth", "depth_layer": [0.3, 4.0], "value": ["WP", "FC"]}},
    "iwc_num_deep": lambda s: {**s, "iwc": {"wc_type": "Num", "method": "Depth", "depth_layer": [0.0, 1.2, 2.4, 5.0], "value": [0.2, 0.25, 0.3, 0.3]}},
    "iwc_default": lambda s: {**s, "iwc": None} if S.soil_nlayers(s["soil"]) == 1 else None,
    "co2_const0": lambda s: {**s, "co2": {"constant_conc": True, "current_concentration": 0.0}},
    "co2_const800": lambda s: {**s, "co2": {"constant_conc": True, "current_concentration": 800.0}},
    "co2_const300": lambda s: {**s, "co2": {"constant_conc": True, "current_concentration": 300.0}},
    "co2_table": lambda s: {**s, "co2": {"table": [[1990, 350.0], [2005, 380.0], [2050, 520.0]]}},
    "co2_const600_3seasons": lambda s: {**s, "co2": {"constant_conc": True, "current_concentration": 600.0}, "end": "2004/04/20"},
    "co2_const2100_3seasons": lambda s: {**s, "co2": {"constant_conc": True, "current_concentration": 2100.0}, "end": "2004/04/20"},
    "co2_const350_3seasons": lambda s: {**s, "co2": {"constant_conc": True, "current_concentration": 350.0}, "end": "2004/04/20"},
    "co2_table_rising_3seasons": lambda s: {**s, "co2": {"table": [[1990, 360.0], [2001, 500.0], [2002, 545.0], [2003, 556.0], [2004, 700.0], [2050, 2100.0]]}, "end": "2004/04/20"},
    # CO2 tables that do not cover the first simulated year (the first value holds before the table starts) / end before the last one
    "co2_table_starts_after_window_opens": lambda s: {**s, "co2": {"table": [[2002, 375.0], [2010, 390.0], [2050, 520.0]]}},
    "co2_table_ends_before_window_closes": lambda s: {**s, "co2": {"table": [[1990, 350.0], [2001, 371.0]]}, "end": "2004/04/20"},
    "off_season": lambda s: {**s, "off_season": True},
    # every numeric setting passed as a numpy scalar (values read from arrays / DataFrames)
    "numpy_inputs": lambda s: {**s, "numpy_inputs": True},
    "calc_cn": lambda s: _soilkw(s, calc_cn=1),
    "adj_rew0": lambda s: _soilkw(s, adj_rew=0),
    "adj_cn0": lambda s: _soilkw(s, adj_cn=0),
    "z_cn_odd": lambda s: _soilkw(s, z_cn=0.27, z_germ=0.12),
    "dz_thick": lambda s: {**s, "soil": {**s["soil"], "dz": [0.3] * 5}} if s["soil"]["type"] != "ac_TunisLocal" else None,
    "dz_few8": lambda s: {**s, "soil": {**s["soil"], "dz": [0.1] * 4 + [0.2] * 4}} if s["soil"]["type"] != "ac_TunisLocal" else None,
    "dz_few6": lambda s: {**s, "soil": {**s["soil"], "dz": [0.2] * 6}} if s["soil"]["type"] != "ac_TunisLocal" else None,
    "dz_nonuni": lambda s: {**s, "soil": {**s["soil"], "dz": A.DZ["nonuni"]}} if s["soil"]["type"] != "ac_TunisLocal" else None,
}
WINDOW_DEVS = {
    "start_feb29": lambda s: {**s, "start": "2004/02/29", "end": "2005/02/20", "crop": {**s["crop"], "planting": "03/05"}},
    "end_feb29": lambda s: {**s, "start": "2003/05/01", "end": "2004/02/29"},
    "season_across_feb29": lambda s: {**s, "start": "2003/12/15", "end": "2004/12/01", "crop": {**s["crop"], "planting": "12/15"}},
    "end_on_planting_day": lambda s: {**s, "end": "2003/" + s["crop"]["planting"]},
    "end_day_after_planting_day": lambda s: {**s, "end": A._f(A._d("2003/" + s["crop"]["planting"]) + __import__("datetime").timedelta(days=1))},
    "partial_season": lambda s: {**s, "end": "2001/06/20"},
    "start_after_planting": lambda s: {**s, "start": "2001/05/10", "end": "2003/04/20"},
    "start_before_planting": lambda s: {**s, "start": "2001/03/15"},
    "three_seasons": lambda s: {**s, "end": "2004/04/20"},
    "no_season": lambda s: {**s, "start": "2001/06/01", "end": "2001/12/30", "crop": {**s["crop"], "planting": "03/01"}},
    "planting_dec31": lambda s: {**s, "start": "2001/12/31", "end": "2003/06/30", "crop": {**s["crop"], "planting": "12/31"}},
    # a window before the first year of the bundled CO2 record (1959) and one reaching beyond its last year
    "years_1950s": lambda s: {**s, "start": "1950/05/01", "end": "1952/04/20"},
    "years_2097_2099": lambda s: {**s, "start": "2097/05/01", "end": "2099/04/20"},
    "planting_jan01": lambda s: {**s, "start": "2002/01/01", "end": "2002/12/30", "crop": {**s["crop"], "planting": "01/01"}},
}


def _crop(s, **kw):
    c = copy.deepcopy(s["crop"])
    c["kw"].update(kw)
    return {**s, "crop": c}


def _fieldkw(s, key, **kw):
    return {**s, key: {**(s.get(key) or {}), **kw}}


def _soilkw(s, **kw):
    so = copy.deepcopy(s["soil"])
    so["kw"].update(kw)
    return {**s, "soil": so}


BASES = [
    ("Maize", "SandyLoam", "none"), ("Wheat", "ClayLoam", "smt"), ("PotatoGDD", "Loam", "net80"),
    ("PaddyRice", "Paddy", "const8e70"), ("CottonGDD", "Clay", "int3"), ("Tomato", "ac_TunisLocal", "sched"),
]


def scenarios(tier, seed=0):
    names = A.catalogue_names()
    if tier == "quick":
        seen = set()
        trip = []
        for c, st in itertools.product(names, STRATS):
            trip.append((c, SOILS15[(names.index(c) + STRATS.index(st)) % 15], st))
        for c, so in itertools.product(names, SOILS15):
            trip.append((c, so, STRATS[(names.index(c) + SOILS15.index(so)) % 6]))
        for so, st in itertools.product(SOILS15, STRATS):
            trip.append((names[(SOILS15.index(so) * 6 + STRATS.index(st)) % 37], so, st))
        for t in trip:
            if t not in seen:
                seen.add(t)
                yield {"kind": "cat", "crop": t[0], "soil": t[1], "irr": t[2]}
    else:
        for c, so, st in itertools.product(names, SOILS15, STRATS):
            yield {"kind": "cat", "crop": c, "soil": so, "irr": st}
    # the end date on every day around the calendar maturity of the last season (calendar crops, also converted to thermal time)
    for name in (["Maize", "Wheat", "Tomato", "SugarCane"] if tier == "quick" else ["Maize", "Wheat", "Tomato", "SugarCane", "Potato", "Cotton", "Barley", "Soybean"]):
        for sw in (0, 1):
            for d in range(-3, 4):
                yield {"kind": "endlat", "crop": name, "switch": sw, "d": d}
    # input objects that an earlier model has already used: a Soil extended for a shallow-rooted crop, then given to a deep-rooted one
    # (and the other way round), with enough water for the roots to reach their maximum depth; also a re-used crop / management object
    pairs = [("Potato", "Maize"), ("Tomato", "Cotton"), ("PaddyRice", "Wheat"), ("Maize", "Potato"), ("Onion", "SugarCane"), ("Cabbage", "AlfalfaGDD")]
    for first, second in (pairs if tier != "quick" else pairs[:4]):
        for soil in ("SandyLoam", "Clay"):
            yield {"kind": "reuse", "first": first, "second": second, "soil": soil}
    for cn, pct, adj in ((100, None, 1), (100, None, 0), (99, None, 1), (80, 25, 0), (80, 25, 1), (50, 100, 0), (1, None, 1), (30, -95, 0)):
        yield {"kind": "cn", "cn": cn, "pct": pct, "adj_cn": adj}
    devs = list(OPTION_DEVS) + list(WINDOW_DEVS)
    for bi, b in enumerate(BASES):
        for d in devs:
            yield {"kind": "dev", "base": bi, "devs": [d]}
        if tier != "quick":
            for d1, d2 in itertools.combinations(devs, 2):
                yield {"kind": "dev", "base": bi, "devs": [d1, d2]}
        else:
            for d1, d2 in list(itertools.combinations(devs, 2))[bi::23]:
                yield {"kind": "dev", "base": bi, "devs": [d1, d2]}


def build(scn):
    if scn["kind"] == "cn":
        # custom soils whose (effective) curve number reaches the end of its range: 100 exactly, 99 raised by the antecedent-moisture
        # adjustment, 80 x (1 + 25 %), and the low end
        s = cat("Maize", "custom3", "none", word="showers", iwc="FC")
        s["soil"] = copy.deepcopy(s["soil"])
        s["soil"]["kw"] = dict(s["soil"].get("kw") or {}, cn=scn["cn"], adj_cn=scn["adj_cn"])
        if scn.get("pct"):
            s["field"] = {"curve_number_adj": True, "curve_number_adj_pct": scn["pct"]}
        return s
    if scn["kind"] == "cat":
        return cat(scn["crop"], scn["soil"], scn["irr"])
    if scn["kind"] == "reuse":
        names = A.catalogue_names()
        return cat(scn["second"] if scn["second"] in names else "Maize", scn["soil"], "smt", word="showers")
    if scn["kind"] == "endlat":
        import datetime as dt
        from aquacrop.entities.crops.crop_params import crop_params

        mat = int(crop_params[scn["crop"]]["MaturityCD"])
        end = A._d("2002/05/01") + dt.timedelta(days=mat - 1 + scn["d"])
        s = cat(scn["crop"], "SandyLoam", "none", end=A._f(end))
        return _crop(s, SwitchGDD=scn["switch"]) if scn["switch"] else s
    c, so, st = BASES[scn["base"]]
    s = cat(c, so, st)
    if sum(1 for d in scn["devs"] if d in WINDOW_DEVS) > 1:
        return None  # two window deviations redefine the same dates (could produce end < start, not a valid input)
    for d in scn["devs"]:
        f = OPTION_DEVS.get(d) or WINDOW_DEVS[d]
        s2 = f(copy.deepcopy(s))
        if s2 is None:
            return None
        s = s2
    # a dated schedule must follow the (possibly moved) window
    if s.get("irr") and s["irr"].get("method") == 3 and any(d in WINDOW_DEVS for d in scn["devs"]):
        s["irr"] = A.resolve_irr(copy.deepcopy(A.IRR["sched"]), [A._d(s["start"])], 100)
    return s


def run(scn):
    res = empty_result()
    wit = res["witness"]
    spec = build(scn)
    if spec is None:
        res["notes"].append("deviation not applicable to this base")
        return res
    if scn["kind"] == "reuse":
        names = A.catalogue_names()
        first = scn["first"] if scn["first"] in names else "Potato"
        spec1 = cat(first, scn["soil"], "none")
        ent1 = S.make_entities(spec1)
        run_plain(spec1, timeout=150, entities=ent1)
        ent = S.make_entities(spec)
        ent["soil"] = ent1["soil"]                      # the same Soil object, already initialised by the first model
        ent["initial_water_content"] = ent1["initial_water_content"]
        t, a, m = run_plain(spec, timeout=150, entities=ent)
        wit["input_objects_used_before"] = 1
    else:
        t, a, m = run_plain(spec, timeout=150)
    res["evals"] = 1
    facts = {"crop": spec["crop"]["name"], "soil": spec["soil"]["type"], "irr_method": (spec.get("irr") or {}).get("method", 0), "devs": scn.get("devs", [])}
    if scn["kind"] == "endlat":
        wit["end_around_last_maturity"] = 1
    if scn["kind"] == "dev":
        wit["option_deviation_run" if any(d in OPTION_DEVS for d in scn["devs"]) else "window_deviation_run"] = 1
        if any("feb29" in d for d in scn["devs"]):
            wit["leap_day_window"] = 1
    if a:
        res["aborted"] = a
        if a.get("exc_type") == "Timeout":
            res["violations"].append(V("terminates", None, a.get("exc_msg"), "the run terminates", **facts, exc_type="Timeout", sig=["timeout"] + facts["devs"]))
        elif documented(a):
            wit["documented_rejection"] = 1
        else:
            res["violations"].append(V("no-undocumented-exception", None, {"exc": a.get("exc_type"), "origin": a.get("exc_origin"), "msg": (a.get("exc_msg") or "")[:200], "line": a.get("exc_line")},
                                       "completes, or one of the documented rejections", **facts, exc_type=a.get("exc_type"), exc_origin=a.get("exc_origin"), exc_line=a.get("exc_line"),
                                       no_season=(a.get("exc_type") == "IndexError" and "read_model_parameters" in (a.get("exc_origin") or "")),
                                       sig=["raise", a.get("exc_type"), a.get("exc_origin")]))
        return res
    res["states"], res["transitions"] = table_state_keys(t)
    wit["completed_run"] = 1
    crop0 = m._param_struct.Seasonal_Crop_List[0] if m._param_struct.Seasonal_Crop_List else None
    if crop0 is not None and crop0.CalendarType == 2:
        wit["thermal_crop_run"] = 1
    if S.soil_nlayers(spec["soil"]) > 1:
        wit["layered_soil_run"] = 1
    ex = executed_rows(t)
    bad = []
    fl = t["flux"][ex]
    for j, name in enumerate(FLUX_COLS):
        if name == "z_gw" and spec.get("gw") is None:
            continue
        if not np.isfinite(fl[:, j]).all():
            bad.append("flux." + name)
    if not np.isfinite(t["storage"][ex]).all():
        bad.append("storage")
    gr = t["growth"][ex]
    for j, name in enumerate(GROWTH_COLS):
        if not np.isfinite(gr[:, j]).all():
            bad.append("growth." + name)
    for r in t["final"]:
        for j in (4, 5, 6, 7):
            if not np.isfinite(float(r[j])):
                bad.append(f"summary.col{j}")
    if bad:
        bad = sorted(set(bad))
        res["violations"].append(V("all-outputs-finite", None, {"non_finite": bad}, "every reported number finite", **facts, non_finite=bad, sig=["nonfinite"] + bad[:2] + [facts["crop"]]))
    return res


def describe(tier):
    return {
        "rule": ("ALL pairs (crop,strategy), (crop,soil), (soil,strategy) of the catalogue product 37 crops x 15 soils x 6 strategies" if tier == "quick" else
                 "the FULL catalogue product 37 crops x 15 soils x 6 strategies (3330 full-season runs)")
                + " on the warm word, plus, around 6 bases, every single deviation " + ("and every 23rd pair" if tier == "quick" else "and EVERY pair") + " over 51 option switches (ETadj, PlantMethod, CropType 1-3, "
                "GDDmethod 1-3, Determinant, SwitchGDD, stress switches, bunds with z_bund 0 / 0.5 mm / 0.2 m, fallow bunds, mulches, sr_inhb, CN adjustment, water-table methods incl. "
                "uncovered series and a table at the surface, all IWC types, CO2 options (also over 3 seasons, below/around/above 550 and 2000 ppm), off-season, calc_cn, adj_rew, adj_cn, odd z_cn/z_germ, thick, short and non-uniform thickness lists) and 12 "
                "window deviations (leap-day start/end, season across 29 Feb, partial season, no season, start before/after planting, 3 seasons, an end date on / one day after a planting day, planting on 12/31 and 01/01). Oracle: terminates "
                "(watchdog), raises only documented rejections (matched on type AND origin), every cell of every table finite (z_gw exempt without a table).",
        "bound": "catalogue " + ("pairwise" if tier == "quick" else "complete") + "; deviations d<=" + ("1 (+1/23 of pairs)" if tier == "quick" else "2"),
        "exhaustive": True,
        "witnesses": WITNESSES,
        "assumptions": ["a planting date '02/29' is a malformed date (permitted rejection) and is not generated", "weather is the synthetic 'warm' word (every thermal crop can mature)"],
    }
