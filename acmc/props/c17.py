"""C17 Stress and growth response functions are bounded and monotone -- DESIGN 3/C17.

The lattice is a graph: nodes = argument points, edges = neighbouring points along one axis.  Range invariants are evaluated on
every node, monotonicity on every edge, for every catalogue crop, by calling the real functions."""
import itertools

import numpy as np

from .. import alphabets as A
from .. import spec as S
from ..runner import empty_result
from ._pairs import V

PID = "C17"
LEVEL = "model_checking"
WITNESSES = ["curves_of_a_prepared_converted_crop", "late_season_rewatering_of_a_live_canopy", "stress_reduced_growth_coefficient", "ks_strictly_between_0_and_1", "ks_full_stress", "et0_adjustment_switched_off", "cold_coefficient_partial", "heat_coefficient_zero", "gdd_clipped_low", "gdd_clipped_high",
             "growth_curve_decay_stage", "decline_curve_reaches_zero", "inverse_checked", "fco2_above_1", "fco2_below_1", "fco2_season_reset_site", "fco2_overridden_sink_strength", "aeration_stress_active", "aeration_switched_off_crop", "growth_curve_starts_in_decay_stage", "fco2_overridden_water_productivity"]
NONTRIVIAL = WITNESSES
# every family must really have run (a family that cannot initialise only leaves a note): without these the run is vacuous
REQUIRED_WITNESSES = ["ks_strictly_between_0_and_1", "aeration_stress_active", "cold_coefficient_partial", "gdd_clipped_low", "inverse_checked", "fco2_above_1", "fco2_season_reset_site",
                      "late_season_rewatering_of_a_live_canopy", "curves_of_a_prepared_converted_crop"]
TOL = 1e-12


def scenarios(tier, seed=0):
    for name in A.catalogue_names():
        for fam in ("water_stress", "aeration", "temperature", "gdd", "canopy", "fco2"):
            yield {"crop": name, "family": fam, "fine": tier != "quick"}
    # the decline curve as the MODEL applies it: drought starting before the senescence date and relieved by a storm after it (the
    # late-season re-watering branch evaluates the decline curve with adjusted parameters)
    cal = [n for n in A.calendar_crop_names() if n not in ("SugarCane", "Cassava")]
    for name in (cal[::3] if tier == "quick" else cal):
        yield {"crop": name, "family": "decline_run", "fine": tier != "quick"}
    # the canopy curves with the parameters of crops as the model PREPARES them: calendar crops converted to thermal time (SwitchGDD=1),
    # also with overridden phase lengths that put senescence after maturity (a crop cut green) or very close to it
    for name in (cal[::3] if tier == "quick" else cal):
        for var in ("switch", "switch_cut_green", "switch_late_senescence"):
            yield {"crop": name, "family": "canopy", "fine": tier != "quick", "prepared": var}


def run(scn):
    from .. import ensure_repo_on_path

    ensure_repo_on_path()
    from aquacrop import Crop
    from aquacrop.solution.water_stress import water_stress
    from aquacrop.solution.temperature_stress import temperature_stress
    from aquacrop.solution.growing_degree_day import growing_degree_day
    from aquacrop.solution.cc_development import cc_development
    from aquacrop.solution.cc_required_time import cc_required_time

    res = empty_result()
    wit = res["witness"]
    viol = res["violations"]
    name, fam, fine = scn["crop"], scn["family"], scn["fine"]
    nodes = edges = 0

    def hit(k):
        wit[k] = wit.get(k, 0) + 1

    def bad(clause, obs, exp, **f):
        if sum(1 for v in viol if v["clause"] == clause) < 3:
            viol.append(V(clause, None, obs, exp, crop=name, family=fam, sig=[clause], **f))

    crop = Crop(name, planting_date="05/01")
    if scn.get("prepared"):
        sen, mat = int(crop.SenescenceCD), int(crop.MaturityCD)
        kw = {"SwitchGDD": 1}
        if scn["prepared"] == "switch_cut_green":
            kw["MaturityCD"] = max(int(crop.HIstartCD) + 5, sen - 10)
        elif scn["prepared"] == "switch_late_senescence":
            kw["SenescenceCD"] = mat - 1
        spec = A.catalogue_spec(name, word="warm", cropkw=kw)
        try:
            m = S.make_model(spec)
            m._initialize()
            crop = m._param_struct.Seasonal_Crop_List[0]
            hit("curves_of_a_prepared_converted_crop")
        except Exception as e:  # noqa: BLE001 - whether such a crop initialises is C16's question
            res["notes"].append("prepared crop not available: " + type(e).__name__)
            return res
    if fam == "decline_run":
        from ..driver import run_plain, GX

        sen, mat = int(crop.SenescenceCD), int(crop.MaturityCD)
        starts = (sen - 40, sen - 25, sen - 10) if not fine else (sen - 50, sen - 40, sen - 30, sen - 25, sen - 15, sen - 10, sen - 5)
        relief = (sen + 5, sen + 12, sen + 20) if not fine else (sen + 2, sen + 5, sen + 8, sen + 12, sen + 16, sen + 20, sen + 28)
        for ds, rw in itertools.product(starts, relief):
            if rw >= mat - 2 or ds < 5:
                continue
            dev = [[d, "D"] for d in range(ds, rw)] + [[rw, "S"], [rw + 1, "M"], [rw + 2, "M"]]
            spec = A.catalogue_spec(name, word="showers", soil="ClayLoam", iwc="FC", dev=dev)
            t, a, _ = run_plain(spec)
            if a:
                res["notes"].append("decline_run aborted: " + str(a.get("exc_type")))
                continue
            g = t["growth"]
            dap, cc = g[:, GX["dap"]], g[:, GX["canopy_cover"]]
            nodes += int((dap > 0).sum())
            k = np.where(dap == rw + 1)[0]
            if len(k) and cc[k[0]] > 0:
                hit("late_season_rewatering_of_a_live_canopy")
            for i in range(1, len(dap)):
                if dap[i] > sen + 1 and dap[i - 1] > 0:
                    edges += 1
                    if cc[i] > cc[i - 1] + 1e-12:
                        bad("simulated-canopy-non-increasing-in-the-decline-phase", {"day_after_planting": float(dap[i]), "canopy": float(cc[i]), "previous": float(cc[i - 1]), "drought_from": ds, "storm_on": rw, "senescence_day": sen},
                            "non-increasing after the start of senescence")
                        break
    elif fam == "water_stress":
        taw = 150.0
        deps = np.arange(-20.0, 120.0 + 1e-9, 2.5 if fine else 5.0) / 100.0 * taw
        # ETadj (the ET0 adjustment switch) is an argument too: the crop's own value and both settings of the switch
        p_up0, p_lo0, fsh0 = [np.array(x, dtype=float).copy() for x in (crop.p_up, crop.p_lo, crop.fshape_w)]
        for etadj, et0, tes, beta in itertools.product(sorted({int(crop.ETadj), 0, 1}), [0.1, 1, 3, 5, 8, 12, 20], [0, 5], [True, False]):
            # the lattice is visited in three orders (ascending, descending, even positions up then odd positions down): the coefficient of
            # an argument tuple may not depend on the calls made before it
            n = len(deps)
            orders = {"ascending": list(range(n)), "descending": list(range(n - 1, -1, -1)), "interleaved": list(range(0, n, 2)) + list(range(n - 1 - (n % 2 == 1), 0, -2))}
            maps = {}
            for oname, order in orders.items():
                vals = {}
                for j in order:
                    dr = deps[j]
                    ks = water_stress(crop.p_up, crop.p_lo, etadj, crop.beta, crop.fshape_w, tes, dr, taw, et0, beta)
                    ks = [float(x) for x in ks]
                    vals[j] = ks
                    nodes += 1
                    for i, k in enumerate(ks):
                        if not (-TOL <= k <= 1 + TOL) or k != k:
                            bad("water-stress-in-0-1", {"coef": i, "value": k, "Dr/TAW": dr / taw, "et0": et0, "ETadj": etadj}, "[0,1]")
                    if any(0 < k < 1 for k in ks):
                        hit("ks_strictly_between_0_and_1")
                    if min(ks) <= 0:
                        hit("ks_full_stress")
                maps[oname] = vals
                for j in range(1, n):
                    edges += 1
                    for i, (a, b) in enumerate(zip(vals[j - 1], vals[j])):
                        if b > a + TOL:
                            bad("water-stress-non-increasing-in-depletion", {"coef": i, "at": deps[j] / taw, "value": b, "previous": a, "et0": et0, "tEarlySen": tes, "beta": beta, "ETadj": etadj, "visiting_order": oname}, "non-increasing")
            for oname in ("descending", "interleaved"):
                for j in range(n):
                    if maps[oname][j] != maps["ascending"][j]:
                        bad("water-stress-is-a-function-of-its-arguments", {"Dr/TAW": deps[j] / taw, "ascending_visit": maps["ascending"][j], oname + "_visit": maps[oname][j], "et0": et0, "tEarlySen": tes, "beta": beta, "ETadj": etadj},
                            "the same arguments give the same coefficients whatever was evaluated before")
                        break
            if etadj == 0:
                hit("et0_adjustment_switched_off")
            if not (np.array_equal(p_up0, np.array(crop.p_up, dtype=float)) and np.array_equal(p_lo0, np.array(crop.p_lo, dtype=float)) and np.array_equal(fsh0, np.array(crop.fshape_w, dtype=float))):
                bad("water-stress-is-a-function-of-its-arguments", {"crop_thresholds_after_the_calls": [float(x) for x in crop.p_up], "configured": [float(x) for x in p_up0], "et0": et0, "tEarlySen": tes, "beta": beta, "ETadj": etadj},
                    "the crop's threshold arrays are inputs and stay as configured")
                crop.p_up, crop.p_lo, crop.fshape_w = p_up0.copy(), p_lo0.copy(), fsh0.copy()
    elif fam == "aeration":
        # the water-logging member of the water-stress coefficients (bounds only; the statement's monotonicity clause is about depletion)
        import collections
        from aquacrop.solution.aeration_stress import aeration_stress

        RZ = collections.namedtuple("RZ", "Act S FC WP Dry Aer")
        for th_s, th_fc, th_wp in ((0.41, 0.22, 0.10), (0.50, 0.39, 0.23), (0.55, 0.54, 0.39)):
            aer = th_s - float(crop.Aer) / 100.0
            for act in np.arange(th_wp / 2, th_s + 1e-9, 0.01 if fine else 0.02):
                days = 0
                for call in range(14):   # consecutive days at this water content, carrying the day counter
                    k, days = aeration_stress(days, crop.LagAer, RZ(float(act), th_s, th_fc, th_wp, th_wp / 2, aer))
                    k = float(k)
                    nodes += 1
                    if not (-TOL <= k <= 1 + TOL) or k != k:
                        bad("aeration-coefficient-in-0-1", {"value": k, "theta": float(act), "th_s": th_s, "consecutive_call": call + 1, "Aer": float(crop.Aer), "LagAer": float(crop.LagAer)}, "[0,1]")
                    if k < 1:
                        hit("aeration_stress_active")
                    if float(crop.Aer) < 0:
                        hit("aeration_switched_off_crop")
    elif fam == "temperature":
        temps = np.arange(-30.0, 60.0 + 1e-9, 0.5 if fine else 1.0)
        ph = pc = None
        for T in temps:
            h, _ = temperature_stress(crop, float(T), 10.0)
            _, c = temperature_stress(crop, 30.0, float(T))
            h, c = float(h), float(c)
            nodes += 1
            for nm, k in (("heat", h), ("cold", c)):
                if not (-TOL <= k <= 1 + TOL) or k != k:
                    bad("pollination-coefficient-in-0-1", {"which": nm, "value": k, "T": float(T)}, "[0,1]")
            if ph is not None:
                edges += 1
                if h > ph + TOL:
                    bad("heat-coefficient-non-increasing", {"Tmax": float(T), "value": h, "previous": ph}, "non-increasing in Tmax")
                if c < pc - TOL:
                    bad("cold-coefficient-non-decreasing", {"Tmin": float(T), "value": c, "previous": pc}, "non-decreasing in Tmin")
            ph, pc = h, c
            if 0 < c < 1:
                hit("cold_coefficient_partial")
            if h == 0:
                hit("heat_coefficient_zero")
    elif fam == "gdd":
        temps = np.arange(-30.0, 60.0 + 1e-9, 3.0 if not fine else 1.5)
        rng = float(crop.Tupp) - float(crop.Tbase)
        for method in (1, 2, 3):
            grid = {}
            for tmin in temps:
                for tmax in temps:
                    if tmax < tmin:
                        continue
                    g = float(growing_degree_day(method, crop.Tupp, crop.Tbase, float(tmax), float(tmin)))
                    grid[(float(tmin), float(tmax))] = g
                    nodes += 1
                    if not (-TOL <= g <= rng + TOL) or g != g:
                        bad("gdd-in-range", {"method": method, "tmin": float(tmin), "tmax": float(tmax), "gdd": g}, {"max": rng})
                    if g == 0:
                        hit("gdd_clipped_low")
                    if g >= rng:
                        hit("gdd_clipped_high")
            step = float(temps[1] - temps[0])
            for (tmin, tmax), g in grid.items():
                for nb in ((tmin + step, tmax), (tmin, tmax + step)):
                    if nb in grid:
                        edges += 1
                        if grid[nb] < g - TOL:
                            bad("gdd-non-decreasing-in-temperature", {"method": method, "from": [tmin, tmax], "to": list(nb), "gdd": [g, grid[nb]]}, "non-decreasing")
    elif fam == "canopy":
        cgc0 = float(crop.CGC_CD) if crop.CalendarType == 1 else float(crop.CGC)
        cdc0 = float(crop.CDC_CD) if crop.CalendarType == 1 else float(crop.CDC)
        unit = 1.0 if crop.CalendarType == 1 else 12.0
        cc0 = float(crop.CC0)
        span = (float(crop.MaturityCD or 130)) * unit * 2
        nt = 200 if fine else 100
        # maximum covers: the crop's own, scaled, and SMALL ones relative to the initial cover (the stress-adjusted maximum the model
        # passes in can be barely above CC0: the curve then starts in its decay stage)
        fxs = [0.5, 1.0, 1.0 / max(float(crop.CCx), 1e-9) * min(1.0, float(crop.CCx) * 1.5)]
        fxs += [k * cc0 / max(float(crop.CCx), 1e-9) for k in (1.2, 1.5, 1.9, 2.0, 2.5, 4.0)]
        # growth coefficients: the crop's own x {0.5, 1, 1.5}, and reduced by severe leaf-expansion stress (the model passes CGC x Ks_exp,
        # with Ks_exp down to a few thousandths; per-degree-day coefficients then drop below 1e-4) - there the time axis is stretched
        combos = list(itertools.product(fxs, [0.5, 1.0, 1.5], [0.5, 1.0, 1.5])) + list(itertools.product(fxs, [0.1, 0.02, 0.005, 0.001], [1.0]))
        for fx, fg, fd in combos:
            ccx = min(1.0, float(crop.CCx) * fx)
            if fg < 0.5:
                hit("stress_reduced_growth_coefficient")
            if cc0 > ccx / 2:
                hit("growth_curve_starts_in_decay_stage")
            cgc, cdc = cgc0 * fg, cdc0 * fd
            pg = pd_ = None
            for t in np.linspace(0, span / min(1.0, fg * 2), nt + 1):
                g = float(cc_development(cc0, ccx, cgc, cdc, float(t), "Growth", ccx))
                d = float(cc_development(cc0, ccx, cgc, cdc, float(t), "Decline", ccx))
                nodes += 1
                for nm, k in (("growth", g), ("decline", d)):
                    if not (-TOL <= k <= ccx + 1e-12) or k != k:
                        bad("canopy-curve-in-0-ccx", {"curve": nm, "value": k, "t": float(t), "CCx": ccx, "CGC": cgc, "CDC": cdc}, {"max": ccx})
                if pg is not None:
                    edges += 1
                    if g < pg - TOL:
                        bad("growth-curve-non-decreasing", {"t": float(t), "value": g, "previous": pg, "CCx": ccx, "CGC": cgc}, "non-decreasing in time")
                    if d > pd_ + TOL:
                        bad("decline-curve-non-increasing", {"t": float(t), "value": d, "previous": pd_, "CCx": ccx, "CDC": cdc}, "non-increasing in time")
                pg, pd_ = g, d
                if g > ccx / 2:
                    hit("growth_curve_decay_stage")
                if d == 0:
                    hit("decline_curve_reaches_zero")
                # inverse: time-to-reach-cover inverts the growth curve (strictly inside (CC0, CCx))
                if cc0 * 1.0001 < g < ccx * 0.9999:
                    tr = float(cc_required_time(g, cc0, ccx, cgc, cdc, "CGC"))
                    g2 = float(cc_development(cc0, ccx, cgc, cdc, tr, "Growth", ccx))
                    nodes += 1
                    if abs(g2 - g) > 1e-9:
                        bad("required-time-inverts-growth-curve", {"cc": g, "t_required": tr, "cc_at_t_required": g2, "t": float(t)}, "equal within 1e-9")
                    hit("inverse_checked")
    elif fam == "fco2":
        # The CO2 productivity factor is computed at two sites: compute_variables (first season) and reset_initial_conditions
        # (every later season).  Both real functions are driven over the concentration lattice, for the crop's own sink
        # strength and for overridden ones.
        from aquacrop.initialize.compute_variables import compute_variables
        from aquacrop.timestep.reset_initial_conditions import reset_initial_conditions

        concs = [250, 300, 340, 369.41, 400, 450, 500, 540, 546, 549, 550, 551, 554, 560, 600, 700, 800, 1000, 1500, 1990, 2000, 2010, 2500]
        if fine:
            concs += [280, 320, 360, 369.0, 370.0, 380, 420, 480, 520, 530, 545, 547, 548, 552, 553, 556, 580, 650, 900, 1200, 1800, 1999.0, 2001.0, 2200]
        concs = sorted(set(concs))
        fsinks = [None, 1.0] if not fine else [None, 0.0, 0.2, 0.8, 1.0]
        # ... and for water productivities on both sides of the C3 / C4 weighting (WP <= 20: full, >= 40: no CO2 response)
        variants = [(fs, None) for fs in fsinks] + [(None, wp) for wp in ((15.0, 45.0) if not fine else (10.0, 20.0, 30.0, 40.0, 45.0, 60.0))]
        for fs, wp in variants:
            kw = {} if fs is None else {"fsink": fs}
            if wp is not None:
                kw["WP"] = wp
                hit("fco2_overridden_water_productivity")
            spec = A.catalogue_spec(name, word="warm", cropkw=kw, co2={"constant_conc": True, "current_concentration": 400.0})
            try:
                m = S.make_model(spec)
                m._initialize()
            except Exception:  # noqa: BLE001
                res["notes"].append("initialisation failed in fco2 family")
                hit("fco2_family_initialisation_failed")
                continue
            ps, ck = m._param_struct, m._clock_struct
            for site in ("first_season", "season_reset"):
                prev = None
                for c in concs:
                    ps.CO2.constant_conc = True
                    ps.CO2.current_concentration = float(c)
                    try:
                        if site == "first_season":
                            ps = compute_variables(ps, m.weather_df, ck)
                            f = float(ps.Seasonal_Crop_List[0].fCO2)
                        else:
                            cond, ps = reset_initial_conditions(ck, m._init_cond, ps, m._weather, getattr(m, "_crop", m.crop))
                            f = float(ps.Seasonal_Crop_List[ck.season_counter].fCO2)
                    except Exception as e:  # noqa: BLE001
                        bad("fco2-computable", {"site": site, "conc": c, "exc": repr(e)[:120]}, "a value", site=site)
                        break
                    nodes += 1
                    if not np.isfinite(f) or f <= 0:
                        bad("fco2-positive-finite", {"site": site, "conc": c, "fCO2": f}, "> 0", site=site)
                    if abs(c - 369.41) < 1e-9 and abs(f - 1.0) > 1e-12:
                        bad("fco2-is-1-at-reference", {"site": site, "fCO2": f}, 1.0, site=site)
                    if prev is not None:
                        edges += 1
                        if f < prev[1] - 1e-12:
                            bad("fco2-non-decreasing-in-concentration", {"site": site, "conc": [prev[0], c], "fCO2": [prev[1], f], "fsink": float(ps.Seasonal_Crop_List[0].fsink)}, "non-decreasing", site=site)
                    prev = (c, f)
                    if f > 1:
                        hit("fco2_above_1")
                    if f < 1:
                        hit("fco2_below_1")
                    if site == "season_reset":
                        hit("fco2_season_reset_site")
                    if fs is not None:
                        hit("fco2_overridden_sink_strength")
    res["evals"] = nodes + edges
    res["transitions"] = edges
    res["states"] = b""
    res["n_nodes"] = nodes
    return res


def describe(tier):
    fine = tier != "quick"
    return {
        "rule": "for each of the 37 catalogue crops the real functions are called on a lattice: water_stress (depletion -20..120 % of TAW step " + ("2.5" if fine else "5") + " x ET0 {0.1,1,3,5,8,12,20} x "
                "early-senescence days {0,5} x beta {T,F} x ET0-adjustment switch {0,1}; every lattice visited ascending, descending and interleaved, the three visits must agree and leave the crop's threshold arrays untouched); temperature_stress (-30..60 C step " + ("0.5" if fine else "1") + "); growing_degree_day (methods 1-3 x Tmin,Tmax grid step "
                + ("1.5" if fine else "3") + ", Tmax>=Tmin); cc_development growth/decline (" + ("200" if fine else "100") + " time points over twice the cycle x CCx,CGC,CDC of the crop and +-50 %); "
                "cc_required_time o cc_development; fCO2 at BOTH sites that compute it (compute_variables for the first season, reset_initial_conditions for later seasons, called on a really initialised model) for 23" + ("+24" if fine else "") + " concentrations 250..2500 ppm (dense around 369.41, 550 and 2000) x sink strength {crop default, 1.0" + (", 0, 0.2, 0.8" if fine else "") + "}. Nodes = points "
                "(range invariants), edges = neighbouring points along one axis (monotonicity).",
        "bound": "lattice complete at the stated resolution for all 37 crops",
        "exhaustive": True,
        "witnesses": WITNESSES,
        "assumptions": ["values between lattice points are not covered", "monotonicity slack 1e-12"],
    }
