"""C15 Weather is bound by date and by column name -- DESIGN 3/C15."""
import copy
import itertools

import numpy as np
import pandas as pd

from .. import alphabets as A
from .. import spec as S
from ..driver import run_plain, tables_digest
from ..runner import empty_result
from ._pairs import compare_all, table_state_keys, V

PID = "C15"
LEVEL = "model_checking"
WITNESSES = ["lars_baseline_file_read", "weather_file_read_by_prepare_weather", "file_with_row_label_column", "permuted_columns", "extra_column", "reindexed", "extra_rows", "thermal_crop", "combined_transformations", "season_calendar_checked_by_name", "nights_below_base_temperature", "weather_matrix_checked_by_date", "same_dates_other_row_offset", "stepwise_blocks", "rerun_with_later_start", "yearly_periodic_weather"]
NONTRIVIAL = WITNESSES

COLS = ["MinTemp", "MaxTemp", "Precipitation", "ReferenceET", "Date"]
EXTRA = ["none", "front", "middle", "end", "nan_gaps", "clash_names", "case_variants"]
INDEX = ["range", "shift1000", "reversed_labels", "strings", "date", "restart_yearly", "constant", "concat31"]
NONUNIQUE = ["restart_yearly", "constant", "concat31"]   # repeated labels: yearly files / extra rows concatenated without ignore_index, a station id
ROWS = ["none", "lead400", "trail400", "both", "lead_gap", "lead_dup", "lead_labels", "trail_gap"]
CROPS = {
    "calendar": lambda: A.to_spec(A._b(crop="maize.2", win="w2", word="mix", irr="smt")),
    "thermal": lambda: _thermal(),
    "thermal_at_planting": lambda: _thermal(start_on_planting=True),
    "switchgdd": lambda: A.catalogue_spec("Maize", word="hot", cropkw={"SwitchGDD": 1}, end="2003/04/20"),
}


def _thermal(start_on_planting=False):
    s = A.to_spec(A._b(crop="maize.2", win="w2" if not start_on_planting else {"pre": 0, "seasons": 2}, word="hot"))
    s["crop"] = {"name": "MaizeGDD", "planting": "05/01", "harvest": "07/30", "scale": None, "gddscale": 0.15, "kw": {}}
    return s


FILE_LABELS = ["none", "zero_based", "one_based", "from_500", "reversed"]


def file_scenarios(tier):
    """The same records written to a text file in the layout of the bundled climate files and read back with prepare_weather():
    without a row-label column (tunis_climate.txt), with labels 0..n-1 (tests/brussels_future.txt), with labels 1..n, with labels of a
    slice of a longer table, with descending labels; 0 / 200 extra days before the window."""
    for ck in (("calendar", "thermal") if tier == "quick" else tuple(CROPS)):
        for lab in FILE_LABELS:
            for lead in (0, 200):
                yield {"kind": "file", "crop": ck, "labels": lab, "lead": lead}
    # LARS-WG baseline files over windows holding a leap year, the year after one and the year before one
    for start, end in (("2000/04/27", "2001/07/03"), ("2001/04/27", "2002/07/03"), ("2003/04/27", "2004/07/03"), ("2004/04/27", "2005/07/03")):
        for lead in (0, 150):
            yield {"kind": "lars", "start": start, "end": end, "lead": lead}


def run_lars(scn):
    """The configured records written as a LARS-WG *baseline* file (year, day of year, Tmin, Tmax, rain, radiation) and read back with
    prepare_lars_weather(generated=False): every record must carry the date its (year, day-of-year) pair denotes - the window 2000-2004
    holds a leap year, the year after it and a year before one - and a run on that table must equal a run on the same values with
    independently computed dates."""
    import os
    import tempfile
    import datetime as _dt
    from aquacrop.utils.lars import prepare_lars_weather

    res = empty_result()
    spec = A.to_spec(A._b(crop="maize.2", win="w2", word="mix", irr="smt"))
    spec["start"], spec["end"] = scn["start"], scn["end"]
    p = copy.deepcopy(spec)
    p["weather"]["lead"] = scn["lead"]
    p["weather"]["trail"] = 200
    can = S.make_weather(p)
    fd, path = tempfile.mkstemp(prefix="acmc_c15_lars_", suffix=".dat")
    try:
        with os.fdopen(fd, "w") as f:
            for r in can.itertuples(index=False):
                d = pd.Timestamp(r.Date)
                f.write(f"{d.year} {d.dayofyear} {float(r.MinTemp)!r} {float(r.MaxTemp)!r} {float(r.Precipitation)!r} 20.0\n")
        try:
            df = prepare_lars_weather(path, -1, generated=False, order=["year", "jday", "minTemp", "maxTemp", "precip", "rad"])
        except Exception as e:  # noqa: BLE001
            res["evals"] = 1
            res["violations"].append(V("equivalent-weather-table-raises", None, {"exc": type(e).__name__, "msg": str(e)[:160], "where": "prepare_lars_weather"}, "reads the file", sig=["lars-raise"]))
            return res
    finally:
        try:
            os.unlink(path)
        except OSError:
            pass
    res["witness"]["lars_baseline_file_read"] = 1
    res["evals"] = 1
    exp_dates = pd.DatetimeIndex([_dt.datetime(int(pd.Timestamp(x).year), 1, 1) + _dt.timedelta(days=int(pd.Timestamp(x).dayofyear) - 1) for x in can["Date"].values])
    got_dates = pd.DatetimeIndex(pd.to_datetime(df["Date"].values))
    bad = None
    if len(df) != len(can):
        bad = {"rows": len(df), "rows_in_file": len(can)}
    elif not (got_dates == exp_dates).all():
        k = int(np.argmax(~(got_dates == exp_dates)))
        bad = {"row": k, "date": str(got_dates[k]), "year_and_day_of_year_in_file": [int(exp_dates[k].year), int(exp_dates[k].dayofyear)]}
    else:
        for col in ("MinTemp", "MaxTemp", "Precipitation"):
            if not np.array_equal(np.asarray(df[col], dtype=float), np.asarray(can[col], dtype=float)):
                k = int(np.argmax(np.asarray(df[col], dtype=float) != np.asarray(can[col], dtype=float)))
                bad = {"row": k, "column": col}
                break
    if bad is not None:
        res["violations"].append(V("file-records-keep-their-dates", bad.get("row"), bad, "every record dated by its year and day of year", sig=["lars-dates"]))
        return res
    # the run on the helper's table against the run on the same values with the independently computed dates
    ref = df.copy()
    ref["Date"] = exp_dates
    outs = []
    for tab in (df, ref):
        ent = S.make_entities(spec)
        ent["weather_df"] = tab.reset_index(drop=True)
        t, a, _ = run_plain(spec, entities=ent)
        if a:
            res["aborted"] = a
            res["violations"].append(V("equivalent-weather-table-raises", None, {"exc": a.get("exc_type"), "origin": a.get("exc_origin"), "msg": (a.get("exc_msg") or "")[:160]}, "runs", sig=["lars-run-raise"]))
            return res
        outs.append(t)
    res["states"], res["transitions"] = table_state_keys(outs[0])
    if tables_digest(outs[0]) != tables_digest(outs[1]):
        d = compare_all(outs[0], outs[1])
        res["violations"].append(V("equivalent-weather-table-same-results", (d or {}).get("row"), {"first_difference": d}, "bitwise equal", sig=["lars-differs"]))
    return res


def run_file(scn):
    import os
    import tempfile
    from aquacrop.utils import prepare_weather

    res = empty_result()
    spec, tb, dg = base_for(scn["crop"])
    p = copy.deepcopy(spec)
    p["weather"]["lead"] = scn["lead"]
    can = S.make_weather(p)
    n = len(can)
    labels = {"none": None, "zero_based": list(range(n)), "one_based": list(range(1, n + 1)), "from_500": list(range(500, 500 + n)), "reversed": list(range(n - 1, -1, -1))}[scn["labels"]]
    fd, path = tempfile.mkstemp(prefix="acmc_c15_", suffix=".txt")
    try:
        with os.fdopen(fd, "w") as f:
            f.write(("\t" if labels is not None else "") + "Day\tMonth\tYear\tTmin(C)\tTmax(C)\tPrcp(mm)\tEt0(mm)\n")
            for i, r in enumerate(can.itertuples(index=False)):
                d = pd.Timestamp(r.Date)
                row = [str(d.day), str(d.month), str(d.year), repr(float(r.MinTemp)), repr(float(r.MaxTemp)), repr(float(r.Precipitation)), repr(float(r.ReferenceET))]
                f.write("\t".join(([str(labels[i])] if labels is not None else []) + row) + "\n")
        try:
            df = prepare_weather(path)
        except Exception as e:  # noqa: BLE001
            res["evals"] = 1
            res["violations"].append(V("equivalent-weather-table-raises", None, {"exc": type(e).__name__, "msg": str(e)[:160], "where": "prepare_weather"}, "reads the file", labels=scn["labels"], sig=["file-raise"]))
            return res
    finally:
        try:
            os.unlink(path)
        except OSError:
            pass
    res["witness"]["weather_file_read_by_prepare_weather"] = 1
    if labels is not None:
        res["witness"]["file_with_row_label_column"] = 1
    # the table prepare_weather returns must carry, row by row, the record and the date written in the file
    exp_dates = pd.DatetimeIndex(can["Date"].values)
    got_dates = pd.DatetimeIndex(pd.to_datetime(df["Date"].values))
    bad = None
    if len(df) != n:
        bad = {"rows": len(df), "rows_in_file": n}
    elif not (got_dates == exp_dates).all():
        k = int(np.argmax(~(got_dates == exp_dates)))
        bad = {"row": k, "date": str(got_dates[k]), "date_in_file": str(exp_dates[k])}
    else:
        for col in ("MinTemp", "MaxTemp", "Precipitation"):
            if not np.array_equal(np.asarray(df[col], dtype=float), np.asarray(can[col], dtype=float)):
                k = int(np.argmax(np.asarray(df[col], dtype=float) != np.asarray(can[col], dtype=float)))
                bad = {"row": k, "column": col, "value": float(np.asarray(df[col], dtype=float)[k]), "value_in_file": float(np.asarray(can[col], dtype=float)[k])}
                break
    if bad is not None:
        res["evals"] = 1
        res["violations"].append(V("file-records-keep-their-dates", bad.get("row"), bad, "every record dated as written in the file", labels=scn["labels"], sig=["file-dates"]))
        return res
    ent = S.make_entities(spec)
    ent["weather_df"] = df
    t, a, _ = run_plain(spec, entities=ent)
    res["evals"] = 1
    if a:
        res["aborted"] = a
        res["violations"].append(V("equivalent-weather-table-raises", None, {"exc": a.get("exc_type"), "origin": a.get("exc_origin"), "msg": (a.get("exc_msg") or "")[:160]}, "runs like the canonical table",
                                   labels=scn["labels"], sig=["raise", a.get("exc_type"), a.get("exc_origin")]))
        return res
    res["states"], res["transitions"] = table_state_keys(t)
    if tables_digest(t) != dg:
        d = compare_all(t, tb)
        res["violations"].append(V("equivalent-weather-table-same-results", (d or {}).get("row"), {"labels": scn["labels"], "lead": scn["lead"], "first_difference": d}, "bitwise equal to the run on the canonical table",
                                   labels=scn["labels"], sig=["file-differs"]))
    return res


def scenarios(tier, seed=0):
    yield from byname_scenarios(tier)
    yield from periodic_scenarios(tier)
    yield from file_scenarios(tier)
    perms = list(itertools.permutations(range(5)))
    ident = tuple(range(5))
    if tier == "quick":
        for ck in CROPS:
            for p in (perms if ck in ("calendar", "thermal") else perms[::10]):
                yield {"crop": ck, "perm": list(p), "extra": "none", "index": "range", "rows": "none"}
            for e in EXTRA[1:]:
                yield {"crop": ck, "perm": list(ident), "extra": e, "index": "range", "rows": "none"}
            for ix in INDEX[1:]:
                yield {"crop": ck, "perm": list(ident), "extra": "none", "index": ix, "rows": "none"}
            for r in ROWS[1:]:
                yield {"crop": ck, "perm": list(ident), "extra": "none", "index": "range", "rows": r}
            # repeated index labels together with rows outside the window (an in-window row shares its label with an outside row)
            for ix, r in itertools.product(NONUNIQUE, ("lead400", "both", "trail400")):
                yield {"crop": ck, "perm": list(ident), "extra": "none", "index": ix, "rows": r}
            # a few combined transformations
            for p, e, ix, r in [(perms[37], "front", "shift1000", "both"), (perms[101], "middle", "date", "lead400"), (perms[119], "end", "strings", "trail400")]:
                yield {"crop": ck, "perm": list(p), "extra": e, "index": ix, "rows": r}
    else:
        for ck in CROPS:
            # full product for the calendar and the thermal crop; every 12th permutation for the other two crop kinds
            for p, e, ix, r in itertools.product(perms if ck in ("calendar", "thermal") else perms[::12], EXTRA, [i for i in INDEX if i not in NONUNIQUE], ROWS):
                yield {"crop": ck, "perm": list(p), "extra": e, "index": ix, "rows": r}
            # repeated index labels: every 10th permutation
            for p, e, ix, r in itertools.product(perms[::10], EXTRA, NONUNIQUE, ROWS):
                yield {"crop": ck, "perm": list(p), "extra": e, "index": ix, "rows": r}


def periodic_scenarios(tier):
    for crop in (("Potato", "Wheat") if tier == "quick" else ("Potato", "Wheat", "Tomato", "Cotton", "Barley")):
        for word in ("warm", "mix"):
            # 2003-2005 contains 29 Feb 2004 between two planting dates; 2001-2003 does not
            yield {"kind": "periodic", "crop": crop, "word": word, "start": "2003/05/01", "end1": "2004/04/20", "endN": "2006/04/20"}
            yield {"kind": "periodic", "crop": crop, "word": word, "start": "2001/05/01", "end1": "2002/04/20", "endN": "2004/04/20"}


def byname_scenarios(tier):
    for meth in (1, 2, 3):
        for word in ("coolnights", "hot", "mix"):
            for perm in ([0, 1, 2, 3, 4], [1, 0, 3, 2, 4], [4, 3, 2, 1, 0]):
                yield {"kind": "byname", "method": meth, "word": word, "perm": perm, "extra": "front", "index": "shift1000", "rows": "lead400"}
        # the same oracle under step-wise execution (blocks of days that contain a harvest and the jump to the next planting date)
        for restart in (368, 40):
            yield {"kind": "byname", "method": meth, "word": "coolnights", "perm": [0, 1, 2, 3, 4], "extra": "none", "index": "range", "rows": "lead400", "restart": restart}
        for steps in (30, 7, 400):
            yield {"kind": "byname", "method": meth, "word": "coolnights", "perm": [1, 0, 3, 2, 4], "extra": "none", "index": "range", "rows": "lead400", "steps": steps}


def run_byname(scn):
    """Semantic binding: the thermal calendar of EVERY season must be the one computed from the columns NAMED MinTemp / MaxTemp on the
    dates from that season's planting date on (layout-invariance alone cannot see a consistent internal mix-up of two variables)."""
    from ..refmodels import ref_gdd

    res = empty_result()
    spec = A.to_spec(A._b(crop="maize.2", win={"pre": 3, "seasons": 3}, word=scn["word"]))
    spec["crop"] = {"name": "MaizeGDD", "planting": "05/01", "harvest": "09/15", "scale": None, "gddscale": 0.2, "kw": {"GDDmethod": scn["method"]}}
    spec["end"] = "2003/10/15"
    p = copy.deepcopy(spec)
    p["weather"]["lead"] = 400
    canonical = S.make_weather(p)
    df = transform(canonical, scn, p)
    ent = S.make_entities(spec)
    ent["weather_df"] = df
    if scn.get("steps"):
        # blocks of run_model(num_steps=k) calls instead of one uninterrupted run
        from ..driver import tables, describe_exception, watchdog
        t, a, m = None, None, None
        try:
            with watchdog(120):
                m = S.make_model(spec, ent)
                m.run_model(num_steps=int(scn["steps"]), till_termination=False)
                guard = 0
                while not m._clock_struct.model_is_finished and guard < 5000:
                    m.run_model(num_steps=int(scn["steps"]), till_termination=False, initialize_model=False)
                    guard += 1
            t = tables(m)
            res["witness"]["stepwise_blocks"] = 1
        except BaseException as e:  # noqa: BLE001
            if isinstance(e, (KeyboardInterrupt, SystemExit)):
                raise
            a = describe_exception(e)
    elif scn.get("restart"):
        # history: the same model object is run, then its start date is moved later through the public setter and it is run again
        from ..driver import tables, describe_exception, watchdog
        t, a, m = None, None, None
        try:
            with watchdog(120):
                m = S.make_model(spec, ent)
                m.run_model(till_termination=True)
                new_start = S.parse_date(spec["start"]) + __import__("datetime").timedelta(days=int(scn["restart"]))
                m.sim_start_time = new_start.strftime("%Y/%m/%d")
                m.run_model(till_termination=True)
            t = tables(m)
            res["witness"]["rerun_with_later_start"] = 1
        except BaseException as e:  # noqa: BLE001
            if isinstance(e, (KeyboardInterrupt, SystemExit)):
                raise
            a = describe_exception(e)
    else:
        t, a, m = run_plain(spec, entities=ent)
    res["evals"] = 1
    if a:
        res["aborted"] = a
        res["violations"].append(V("equivalent-weather-table-raises", None, {"exc": a.get("exc_type"), "origin": a.get("exc_origin"), "msg": (a.get("exc_msg") or "")[:160]}, "runs", sig=["raise-byname", a.get("exc_origin")]))
        return res
    res["states"], res["transitions"] = table_state_keys(t)
    ck = m._clock_struct
    by_date = canonical.set_index("Date")
    crops = m._param_struct.Seasonal_Crop_List
    for k, pd_ in enumerate(ck.planting_dates):
        c = crops[k]
        sub = by_date.loc[pd.Timestamp(pd_): pd.Timestamp(ck.simulation_end_date)]
        g = np.array([ref_gdd(int(scn["method"]), float(c.Tupp), float(c.Tbase), float(tx), float(tn)) for tn, tx in zip(sub["MinTemp"].values, sub["MaxTemp"].values)])
        cum = np.cumsum(g)
        exp = {"MaturityCD": int(np.argmax(cum > float(c.Maturity)) + 1), "HIstartCD": int(np.argmax(cum > float(c.HIstart)) + 1),
               "MaxCanopyCD": int(np.argmax(cum > float(c.MaxCanopy)) + 1)}
        got = {n: int(getattr(c, n)) for n in exp}
        if got != exp:
            res["violations"].append(V("season-calendar-from-named-columns", None, {"season": k, "model": got}, {"from MinTemp/MaxTemp by name and date": exp}, method=scn["method"], sig=["byname", k > 0]))
            break
        res["witness"]["season_calendar_checked_by_name"] = res["witness"].get("season_calendar_checked_by_name", 0) + 1
        if (sub["MinTemp"].values < float(c.Tbase)).any():
            res["witness"]["nights_below_base_temperature"] = 1
    # the model's own weather matrix still holds, for every date of the window, the record carrying that date (by name)
    W = np.asarray(m._weather)
    want = by_date.loc[pd.Timestamp(ck.simulation_start_date): pd.Timestamp(ck.simulation_end_date)]
    if len(W) == len(want):
        for j, name in enumerate(("MinTemp", "MaxTemp", "Precipitation", "ReferenceET")):
            got = np.array(W[:, j], dtype=float)
            ne = np.where(got != want[name].values.astype(float))[0]
            if len(ne):
                r = int(ne[0])
                res["violations"].append(V("day-uses-the-record-of-its-date", r, {"variable": name, "used": float(got[r])}, {"record of " + str(want.index[r].date()): float(want[name].values[r])},
                                           method=scn["method"], sig=["byname-matrix", name]))
                break
        res["witness"]["weather_matrix_checked_by_date"] = 1
    else:
        res["violations"].append(V("day-uses-the-record-of-its-date", None, {"rows": int(len(W))}, {"days in the window": int(len(want))}, method=scn["method"], sig=["byname-matrix-rows"]))
    # the same dates at another row offset of the run: the last season, started on its own planting date, gives the same days
    # (off-season not simulated, so the seasons are independent: C08)
    from ..driver import GX as _GX
    last = int(ck.n_seasons) - 1
    if last >= 1:
        spec1 = copy.deepcopy(spec)
        spec1["start"] = pd.Timestamp(ck.planting_dates[last]).strftime("%Y/%m/%d")
        ent1 = S.make_entities(spec1)
        ent1["weather_df"] = df.copy()
        t1, a1, m1 = run_plain(spec1, entities=ent1)
        res["evals"] += 1
        if a1:
            res["violations"].append(V("equivalent-weather-table-raises", None, {"exc": a1.get("exc_type"), "origin": a1.get("exc_origin")}, "runs", sig=["raise-offset", a1.get("exc_origin")]))
        else:
            ga, gb = t["growth"], t1["growth"]
            ra = np.where((ga[:, _GX["season_counter"]] == last) & (ga[:, _GX["dap"]] > 0))[0]
            rb = np.where((gb[:, _GX["season_counter"]] == 0) & (gb[:, _GX["dap"]] > 0))[0]
            res["witness"]["same_dates_other_row_offset"] = 1
            if len(ra) != len(rb):
                res["violations"].append(V("same-dates-same-results-at-another-row-offset", None, {"long_run_days": int(len(ra)), "short_run_days": int(len(rb))}, "equal", method=scn["method"], sig=["offset-len"]))
            else:
                x, y = np.nan_to_num(ga[ra][:, 2:]).copy(), np.nan_to_num(gb[rb][:, 2:]).copy()
                ne = np.argwhere(x.view(np.uint64) != y.view(np.uint64))
                if len(ne):
                    r, c = int(ne[0][0]), int(ne[0][1]) + 2
                    from ..driver import GROWTH_COLS
                    res["violations"].append(V("same-dates-same-results-at-another-row-offset", int(ra[r]), {"col": GROWTH_COLS[c], "day_of_season": r + 1, "long_run": float(ga[ra[r], c]), "run_started_at_that_season": float(gb[rb[r], c])},
                                               "bitwise equal", method=scn["method"], sig=["offset", GROWTH_COLS[c]]))
    # the daily degree days of the time step, too
    gd = t["growth"]
    from ..driver import GX
    rows = np.where(t["storage"][:, 1] == 1)[0]
    start = pd.Timestamp(ck.simulation_start_date)
    for r in rows:   # every in-season day
        day = start + pd.Timedelta(days=int(r))
        rec = by_date.loc[day]
        c = crops[int(gd[r, GX["season_counter"]])]
        e = ref_gdd(int(scn["method"]), float(c.Tupp), float(c.Tbase), float(rec["MaxTemp"]), float(rec["MinTemp"]))
        if abs(float(gd[r, GX["gdd"]]) - e) > 1e-9:
            res["violations"].append(V("daily-degree-days-from-named-columns", int(r), {"gdd": float(gd[r, GX["gdd"]])}, {"from the record of that date, by name": e}, method=scn["method"], sig=["byname-daily"]))
            break
    return res


def transform(df, scn, spec):
    cols = [COLS[i] for i in scn["perm"]]
    d = df[cols].copy()
    if scn["extra"] == "nan_gaps":
        # an unrelated column with sensor gaps (NaN) on some in-window days
        wind = np.linspace(1.0, 9.0, len(d))
        wind[::11] = np.nan
        wind[5:9] = np.nan
        d.insert(2, "WindSpeed", wind)
    elif scn["extra"] == "clash_names":
        # unrelated user columns whose NAMES coincide with names the library uses internally for derived columns
        n = len(d)
        d.insert(1, "gdd", np.linspace(40.0, 0.0, n))
        d.insert(3, "season", np.arange(n) % 7)
        d["gdd_cum"] = np.linspace(0.0, 9000.0, n)
        d["year"] = 1900
    elif scn["extra"] == "case_variants":
        # unrelated columns whose names equal a required name up to upper / lower case (a second sensor in other units), after AND
        # before the real columns
        n = len(d)
        d["mintemp"] = np.linspace(60.0, 95.0, n)            # Fahrenheit
        d["MAXTEMP"] = np.linspace(-40.0, 10.0, n)
        d["referenceet"] = np.linspace(20.0, 0.0, n)
        d.insert(0, "precipitation", np.linspace(0.0, 300.0, n))
        d.insert(0, "date", "n/a")
    elif scn["extra"] != "none":
        junk = np.linspace(-50.0, 900.0, len(d))
        pos = {"front": 0, "middle": 2, "end": len(cols)}[scn["extra"]]
        d.insert(pos, "Humidity", junk)
        d.insert(min(pos + 1, d.shape[1]), "Station", "X17")
    ix = scn["index"]
    if ix == "shift1000":
        d.index = pd.RangeIndex(1000, 1000 + len(d))
    elif ix == "reversed_labels":
        d.index = list(range(len(d) - 1, -1, -1))
    elif ix == "strings":
        d.index = [f"r{i}" for i in range(len(d))]
    elif ix == "date":
        d.index = pd.DatetimeIndex(d["Date"].values)
    elif ix == "restart_yearly":
        d.index = [int(x) - 1 for x in pd.DatetimeIndex(d["Date"].values).dayofyear]
    elif ix == "constant":
        d.index = [17] * len(d)
    elif ix == "concat31":
        d.index = list(range(min(31, len(d)))) + list(range(max(0, len(d) - 31)))
    return d


_BASE = {}


def base_for(ck):
    if ck not in _BASE:
        spec = CROPS[ck]()
        t, a, _ = run_plain(spec)
        if a:
            raise RuntimeError(f"C15 base run aborted: {a}")
        _BASE[ck] = (spec, t, tables_digest(t))
    return _BASE[ck]


def run_periodic(scn):
    """Weather that repeats itself every calendar year: a calendar crop converted to thermal time over 1 season and over 3 seasons (with a
    29 February between two planting dates) must give the same first season - the conversion averages identical seasons."""
    from ..driver import GX as _GX
    res = empty_result()
    base = A.catalogue_spec(scn["crop"], word=scn["word"], cropkw={"SwitchGDD": 1, "SwitchGDDType": scn.get("sumfun", "mean")} if scn.get("sumfun") else {"SwitchGDD": 1},
                            start=scn["start"], end=scn["end1"], irr="smt")
    base["weather"]["annual"] = True
    long_ = copy.deepcopy(base)
    long_["end"] = scn["endN"]
    ta, aa, ma = run_plain(base)
    tb, ab, mb = run_plain(long_)
    res["evals"] = 2
    if aa or ab:
        res["aborted"] = aa or ab
        from .c16 import documented
        if not documented(aa or ab):
            res["violations"].append(V("equivalent-weather-table-raises", None, {"exc": (aa or ab).get("exc_type"), "origin": (aa or ab).get("exc_origin")}, "runs", sig=["raise-periodic"]))
        return res
    res["states"], res["transitions"] = table_state_keys(tb)
    res["witness"]["yearly_periodic_weather"] = 1
    ga, gb = ta["growth"], tb["growth"]
    ra = np.where((ga[:, _GX["season_counter"]] == 0) & (ga[:, _GX["dap"]] > 0))[0]
    rb = np.where((gb[:, _GX["season_counter"]] == 0) & (gb[:, _GX["dap"]] > 0))[0]
    if len(ra) != len(rb):
        res["violations"].append(V("identical-seasons-convert-identically", None, {"one_season_days": int(len(ra)), "three_seasons_first_season_days": int(len(rb))}, "same season length", sig=["periodic-len"]))
        return res
    x, y = np.nan_to_num(ga[ra][:, 2:]), np.nan_to_num(gb[rb][:, 2:])
    bad = np.argwhere(np.abs(x - y) > 1e-7 * np.maximum(1.0, np.abs(x)))
    if len(bad):
        r, c = int(bad[0][0]), int(bad[0][1]) + 2
        from ..driver import GROWTH_COLS
        res["violations"].append(V("identical-seasons-convert-identically", int(ra[r]), {"col": GROWTH_COLS[c], "day_of_season": r + 1, "one_season_run": float(ga[ra[r], c]), "three_season_run": float(gb[rb[r], c])},
                                   "equal within 1e-7 (the thermal conversion averages identical seasons)", sig=["periodic", GROWTH_COLS[c]]))
    return res


def run(scn):
    if scn.get("kind") == "periodic":
        return run_periodic(scn)
    if scn.get("kind") == "byname":
        return run_byname(scn)
    if scn.get("kind") == "file":
        return run_file(scn)
    if scn.get("kind") == "lars":
        return run_lars(scn)
    res = empty_result()
    spec, tb, dg = base_for(scn["crop"])
    p = copy.deepcopy(spec)
    if scn["rows"] in ("lead400", "both", "lead_gap", "lead_dup", "lead_labels"):
        p["weather"]["lead"] = 400
    if scn["rows"] in ("trail400", "both", "trail_gap"):
        p["weather"]["trail"] = 400
    if scn["rows"] == "lead_gap":
        p["weather"]["drop_lead_rows"] = [200, 203]
    elif scn["rows"] == "lead_dup":
        p["weather"]["dup_lead_row"] = 120
    elif scn["rows"] == "lead_labels":
        p["weather"]["keep_labels_from"] = 90
    elif scn["rows"] == "trail_gap":
        p["weather"]["drop_trail_rows"] = [30, 36]
    df = transform(S.make_weather(p), scn, p)
    ent = S.make_entities(spec)
    ent["weather_df"] = df
    t, a, _ = run_plain(spec, entities=ent)
    res["evals"] = 1
    wit = res["witness"]
    if scn["perm"] != list(range(5)):
        wit["permuted_columns"] = 1
    if scn["extra"] != "none":
        wit["extra_column"] = 1
    if scn["index"] != "range":
        wit["reindexed"] = 1
    if scn["rows"] != "none":
        wit["extra_rows"] = 1
    if scn["crop"] == "thermal":
        wit["thermal_crop"] = 1
    if sum(1 for k in ("permuted_columns", "extra_column", "reindexed", "extra_rows") if k in wit) >= 2:
        wit["combined_transformations"] = 1
    facts = {"perm_identity": scn["perm"] == list(range(5)), "extra": scn["extra"], "index": scn["index"], "rows": scn["rows"], "crop_kind": scn["crop"]}
    if a:
        res["aborted"] = a
        res["violations"].append(V("equivalent-weather-table-raises", None, {"exc": a.get("exc_type"), "origin": a.get("exc_origin"), "msg": (a.get("exc_msg") or "")[:160]},
                                   "runs like the canonical table", **facts, sig=["raise", a.get("exc_type"), a.get("exc_origin")]))
        return res
    res["states"], res["transitions"] = table_state_keys(t)
    if tables_digest(t) != dg:
        d = compare_all(t, tb)
        res["violations"].append(V("equivalent-weather-table-same-results", (d or {}).get("row"), {"scenario": {k: scn[k] for k in ("perm", "extra", "index", "rows")}, "first_difference": d},
                                   "bitwise equal to the run fed with the canonical table", **facts, sig=["differs", (d or {}).get("table"), (d or {}).get("col")]))
    return res


def describe(tier):
    return {
        "rule": "ALL 120 permutations of the five required columns; unrelated extra columns at the front / middle / end, and one with NaN gaps; index {RangeIndex, shifted by 1000, reversed labels, "
                "string labels, Date index, and REPEATED labels: restarting every calendar year, one constant station id, rows concatenated without ignore_index}; 400 extra leading / trailing rows / both, also with a gap of missing days, a duplicated row or dropped-but-not-re-indexed rows outside the window; " + ("each factor alone against the identity, repeated labels x rows outside the window, plus three combined cases" if tier == "quick" else "the FULL product (120 x 7 x 5 x 8 = 33600 tables per crop plus 12 x 7 x 3 x 8 with repeated index labels; every 12th permutation for the two extra crop kinds)")
                + "; x {calendar-day crop with threshold irrigation; thermal-time crop started before / on its planting date; calendar crop converted to thermal time (SwitchGDD=1)} over 2 seasons. "
                "Oracle: all four tables bitwise equal to the run fed with the canonical table; plus a by-name oracle: for a thermal crop under degree-day methods 1-3 and a word with nights below the base temperature, the thermal calendar of EVERY season and the daily degree days must equal a reference computed from the columns named MinTemp/MaxTemp on the dates concerned; after the run the model's weather matrix must still hold, row by row, the record carrying that row's date; and the last of three seasons must be bitwise equal to a run of the same table started on that season's planting date (same dates at another row offset).",
        "bound": "120 permutations complete; " + ("factors alone" if tier == "quick" else "full product 120 x 6 x 5 x 8 (+ 12 x 7 x 3 x 8 with repeated labels)") + " x 2 crops",
        "exhaustive": True,
        "witnesses": WITNESSES,
        "assumptions": ["bitwise comparison on one interpreter/numpy build"],
    }
