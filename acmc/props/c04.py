"""C04 Fluxes are non-negative and actual never exceeds potential -- DESIGN 3/C04."""
from . import _water as W
from .. import alphabets as A
from .. import spec as S
from ..monitors.water import C04Flux

PID = "C04"
LEVEL = "model_checking"
WITNESSES = ["cc_above_0.96_day", "ponded_day", "mulched_day", "es_limited_day", "tr_limited_day", "irrigated_day", "off_season_day"]

HIGH_CC = ["Cotton", "DryBean", "Soybean", "SugarBeet", "Sunflower"]
HIGH_CC_GDD = ["CottonGDD", "DryBeanGDD", "SoybeanGDD", "SugarBeetGDD", "SunflowerGDD"]


def high_cc_scenarios(tier):
    irrs = ["smt100e70", "net80", "const8wet30", "int3"] if tier != "quick" else ["smt100e70", "const8wet30"]
    for name in HIGH_CC:
        for scale in ([0.2] if tier == "quick" else [0.2, None]):
            for irr in irrs:
                for field in ("none", "mulch50"):
                    crop = {"name": name, "planting": "05/01", "harvest": None, "scale": scale, "kw": {}}
                    if scale:
                        A.CROPS["_tmp"] = {"name": name, "scale": scale}
                        c = A._b(crop="_tmp", irr=irr, field=field, word="warm", win="w1", iwc="FC")
                        spec = A.to_spec(c)
                    else:
                        spec = S.base_spec(crop=crop, start="2001/05/01", end="2001/12/30", weather={"kind": "word", "word": "warm", "dev": []})
                        spec["irr"] = A.resolve_irr(A.IRR[irr], [], 0)
                        spec["field"] = A.FIELD[field]
                    yield {"kind": "spec", "spec": spec, "label": {"highcc": [name, scale, irr, field]}}
    if tier != "quick":
        for name in HIGH_CC_GDD:
            crop = {"name": name, "planting": "05/01", "harvest": None, "scale": None, "kw": {}}
            spec = S.base_spec(crop=crop, start="2001/05/01", end="2002/04/20", weather={"kind": "word", "word": "warm", "dev": []})
            spec["irr"] = A.IRR["smt100e70"]
            yield {"kind": "spec", "spec": spec, "label": {"highcc": [name]}}

NONTRIVIAL = ['cc_above_0.96_day', 'ponded_day', 'mulched_day', 'es_limited_day', 'tr_limited_day']


def full_length_soilopt(tier):
    """Full-length crops on station weather (many small rains: stage-1/stage-2 evaporation transitions) x strategies x expert soil options."""
    import copy

    for fl in (W.FULL_LENGTH[:2] if tier == "quick" else W.FULL_LENGTH):
        for irr in ("none", "net80", "smt"):
            for opt in A.SOILOPT:
                spec = S.base_spec(
                    crop={"name": fl["crop"], "planting": fl["planting"], "harvest": None, "scale": None, "kw": {}},
                    soil={"type": fl["soil"], "dz": None, "kw": dict(A.SOILOPT[opt])},
                    start=fl["start"], end=fl["end"], weather={"kind": "file", "name": fl["wfile"]})
                spec["irr"] = copy.deepcopy(A.IRR[irr])
                spec["iwc"] = S.iwc_for(spec["soil"], "FC")
                yield {"kind": "spec", "spec": spec, "label": {"full_soilopt": [fl["crop"], irr, opt]}}
            # layered soils (finer layer on top / below) under the same strategies
            for soil in ("Tunis", "clayoversand", "sandoverclay", "custom3"):
                ss = copy.deepcopy(A.SOILS[soil])
                ss["dz"] = None
                ss["kw"] = {}
                spec = S.base_spec(
                    crop={"name": fl["crop"], "planting": fl["planting"], "harvest": None, "scale": None, "kw": {}},
                    soil=ss, start=fl["start"], end=fl["end"], weather={"kind": "file", "name": fl["wfile"]})
                spec["irr"] = copy.deepcopy(A.IRR[irr])
                spec["iwc"] = S.iwc_for(ss, "FC")
                yield {"kind": "spec", "spec": spec, "label": {"full_layered": [fl["crop"], irr, soil]}}


def scenarios(tier, seed=0):
    yield from full_length_soilopt(tier)
    menus = dict(A.WATER_MENUS)
    menus["irr"] = menus["irr"] + ["const8wet30"]
    menus["field"] = menus["field"] + ["mulch50"]
    yield from W.water_scenarios(tier, menus=menus, full=(tier != "quick"))
    yield from high_cc_scenarios(tier)


def run(scn):
    return W.run_with(scn, C04Flux, PID)


shrink = W.shrink_config


def describe(tier):
    d = 1 if tier == "quick" else 2
    return {
        "rule": "C01's configuration/weather set (with partial wetting and 50 % mulch added to the menus) plus every catalogue crop with "
                "CCx > 0.96 (scaled" + ("" if tier == "quick" else " and full length, calendar and thermal") + ") under irrigation that lets the "
                "canopy reach CCx, with and without mulch; full-length Maize/Wheat on station weather x {rainfed, net, threshold} x 7 expert soil-option sets (evaporation-layer geometry, Kex/f_evap, fwcc, REW/CN computation, capillary shape); sign of every flux column, Es <= EsPot, Tr <= TrPot and the off-season zero "
                "clause are evaluated on every transition. Non-trivial = at least one regime witness hit.",
        "bound": f"config deviations d<={d}; weather deviations <= {1 if tier == 'quick' else 2} days; all 5 calendar crops with CCx>0.96",
        "exhaustive": True,
        "witnesses": WITNESSES,
        "assumptions": ["float slack 1e-9; net-irrigation requirement slack 0.01 mm per root-zone compartment, as in the statement"],
    }
