"""C11 Inputs are not consumed by a run -- DESIGN 3/C11.

Every configuration that exercises a write into a user object during _initialize is followed by ALL operation sequences of
length <= 3 over {rerun (same model object), rebuild (new model from the same user objects)}; every run's table digest must
equal the first run's and nothing may raise.  The canonical hash of the user objects is tracked: once an operation maps it to
itself the objects have reached a fix-point and longer histories add no new states."""
import copy
import hashlib
import itertools

from .. import alphabets as A
from .. import spec as S
from ..driver import tables, tables_digest, describe_exception, watchdog, Timeout, hash_obj_dict, _canon_value
from ..runner import empty_result
from ._pairs import V, table_state_keys

PID = "C11"
LEVEL = "model_checking"
WITNESSES = ["rerun", "rebuild", "fix_point_reached", "user_objects_changed_by_first_run", "schedule_config", "deepened_profile_config", "thermal_config", "switchgdd_config"]
NONTRIVIAL = ["rerun", "rebuild"]


def configs(tier):
    C = {}
    C["default"] = A.to_spec(A._b(crop="maize.2", win="w1s", word="mix"))
    C["schedule"] = A.to_spec(A._b(crop="maize.2", win="w2", word="dry", irr="sched", iwc="WP"))
    C["smt_list"] = A.to_spec(A._b(crop="maize.2", win="w1", word="dry", irr="smt", iwc="WP"))
    C["deep_rooted"] = A.to_spec(A._b(crop="cotton.2", win="w1s", word="normal", soil="Loam"))
    s = A.catalogue_spec("MaizeGDD", word="hot", end="2002/04/20")
    C["thermal"] = s
    s = A.catalogue_spec("Maize", word="hot", end="2002/04/20", cropkw={"SwitchGDD": 1})
    C["switchgdd"] = s
    C["water_table"] = A.to_spec(A._b(crop="maize.2", win="w1s", word="dry", gw="0.8", soil="ClayLoam"))
    C["series_table"] = A.to_spec(A._b(crop="maize.2", win="w1", word="dry", gw="rising_v", soil="ClayLoam", dz="deep30"))
    # a hand-built weather table with extreme records on simulated days (reference ET below the file reader's 0.1 mm floor, frost):
    # a clean-up of such values may not land on the user's DataFrame
    c = A._b(crop="maize.2", win="w2", word="normal")
    c["dev"] = [[1, "Z"], [6, "Z"], [7, "L"], [11, "F"], [15, "T"], [370, "Z"]]
    C["extreme_weather_records"] = A.to_spec(c)
    # a thickness list off the centimetre grid (2 m in 16 compartments of 0.125 m) on a profile deep enough for the crop: the model rounds
    # the user's list - whatever it derives from it must not depend on whether the list was already rounded by an earlier run
    for nm, dzl, zmax in (("thickness_off_cm_grid", [0.125] * 16, 1.0), ("thickness_off_cm_grid_mixed", [0.075] * 4 + [0.125] * 8 + [0.255] * 4, 1.2)):
        s = A.to_spec(A._b(crop="maize.2", win="w2", word="showers", irr="smt"))
        s["soil"]["dz"] = list(dzl)
        s["crop"]["kw"] = dict(s["crop"].get("kw") or {}, Zmax=zmax, Zmin=0.3)
        C[nm] = s
    # water-logged heavy clay (field capacity above the aeration threshold): per-compartment aeration-stress counters build up during a run
    for nm, ck, iwc, word in (("waterlogged_clay", "wheat.15", "FC", "wet"), ("waterlogged_clay_sat_maize", "maize.2", "SAT", "showers")):
        C[nm] = A.to_spec(A._b(crop=ck, soil="Clay", iwc=iwc, word=word, win="w1"))
    C["waterlogged_clay_full_length_wheat"] = A.catalogue_spec("Wheat", word="wet", soil="Clay", iwc="FC", planting="10/01", start="2001/10/01", end="2002/09/20")
    C["waterlogged_clay_full_length_maize_table"] = A.catalogue_spec("Maize", word="showers", soil="Clay", iwc="FC", gw="0.8", dz="deep30")
    # thresholds handed over as a pandas Series with permuted integer labels (positions count, whenever they are read)
    for nm, kind in (("smt_series_permuted_labels", "permuted"), ("smt_series", "plain")):
        s = A.to_spec(A._b(crop="maize.2", win="w2", word="dry", irr="smt", iwc="Pct50"))
        s["irr"] = {"method": 1, "kw": {"SMT": [20, 40, 60, 80]}, "smt_series": kind}
        C[nm] = s
    # user lists NOT in chronological order (observations / schedule rows): an initialisation that normalises them may not write half of
    # the result back onto the user's object
    for nm, g in (("unsorted_table_v", {"method": "Variable", "series": [[30, 0.5], [0, 2.4], [9999, 0.5]]}),
                  ("unsorted_table_c", {"method": "Constant", "series": [[22, 0.6], [0, 2.2], [12, 1.2]]})):
        s = A.to_spec(A._b(crop="maize.2", win="w1", word="dry", soil="ClayLoam", dz="deep30"))
        s["gw"] = A.resolve_gw(g, s["start"])
        C[nm] = s
    s = A.to_spec(A._b(crop="maize.2", win="w2", word="dry", irr="sched", iwc="WP"))
    s["irr"]["schedule_style"] = "reversed"
    C["schedule_latest_first"] = s
    s = A.to_spec(A._b(crop="maize.2", win="w2", word="dry", irr="sched", iwc="WP"))
    s["irr"]["schedule_style"] = "object_ts"
    C["schedule_object_columns"] = s
    s = A.to_spec(A._b(crop="maize.2", win="w1", word="showers"))
    s["soil"]["kw"] = {"adj_rew": 0, "calc_cn": 1}
    C["adj_rew_calc_cn"] = s
    s = A.to_spec(A._b(crop="maize.2", win="w2", word="normal"))
    s["co2"] = {"constant_conc": True, "current_concentration": 0.0}
    C["co2_const_zero"] = s
    s = A.to_spec(A._b(crop="maize.2", win="w2", word="normal"))
    s["co2"] = {"constant_conc": True, "current_concentration": 550.0}
    C["co2_const_550"] = s
    s = A.to_spec(A._b(crop="maize.2", win="w2", word="normal"))
    s["crop"]["harvest"] = "07/15"
    C["explicit_harvest"] = s
    C["net_bunds"] = A.to_spec(A._b(crop="rice.2", win="w2", word="wet", soil="Paddy", field="bunds50w20", fallow="bunds50w20", irr="net80", iwc="SAT"))
    s = A.to_spec(A._b(crop="potato.2", win="w1", word="wet", soil="Clay"))
    s["iwc"] = None
    C["default_iwc"] = s
    # several seasons in different calendar years, started ON the planting date (per-year CO2 is written onto the CO2 object)
    C["multi_at_planting"] = A.to_spec(A._b(crop="maize.2", win={"pre": 0, "seasons": 3}, word="normal"))
    s = A.to_spec(A._b(crop="cotton.2", win={"pre": 0, "seasons": 2}, word="mix", irr="smt"))
    s["co2"] = {"table": [[1990, 350.0], [2001, 372.0], [2002, 391.0], [2003, 420.0], [2050, 560.0]]}
    C["multi_at_planting_co2_table"] = s
    # every soil option together with a shallow water table, every crop option under drought (derived quantities that one run may
    # leave on the user's objects and the next initialisation may pick up)
    for k, kw in A.SOILOPT.items():
        if not kw:
            continue
        s = A.to_spec(A._b(crop="maize.2", win="w1", word="dry", gw="0.8", soil="ClayLoam", dz="deep30"))
        s["soil"]["kw"] = dict(kw)
        C["soilopt_" + k + "_table"] = s
    for k, kw in A.CROPOPT.items():
        if not kw:
            continue
        s = A.to_spec(A._b(crop="maize.2", win="w2", word="mix", irr="smt", iwc="Pct50"))
        s["crop"]["kw"] = dict(s["crop"].get("kw") or {}, **kw)
        C["cropopt_" + k] = s
    # user objects holding numpy arrays (a function that converts with np.asarray gets the user's own array back)
    for nm, iw in (("iwc_pct_array", {"wc_type": "Pct", "method": "Layer", "depth_layer": [1], "value": [60.0]}),
                   ("iwc_num_depth_array", {"wc_type": "Num", "method": "Depth", "depth_layer": [0.0, 0.6, 1.5], "value": [0.18, 0.25, 0.3]}),
                   ("iwc_pct_depth_array", {"wc_type": "Pct", "method": "Depth", "depth_layer": [0.1, 1.0], "value": [40.0, 90.0]})):
        s = A.to_spec(A._b(crop="maize.2", win="w2", word="normal"))
        s["iwc"] = dict(iw, as_array=True)
        C[nm] = s
    s = A.to_spec(A._b(crop="maize.2", win="w2", word="dry", irr="smt", iwc="WP"))
    s["numpy_inputs"] = True
    C["numpy_settings"] = s
    s = A.catalogue_spec("Maize", word="hot", end="2003/04/20", cropkw={"SwitchGDD": 1})
    s["crop"]["harvest"] = "09/30"
    C["switchgdd_explicit_harvest"] = s
    s = A.catalogue_spec("MaizeGDD", word="hot", end="2003/04/20")
    s["crop"]["harvest"] = "09/30"
    C["thermal_explicit_harvest"] = s
    if tier != "quick":
        C["wheat_full"] = A.catalogue_spec("Wheat", word="normal", planting="10/01", start="2001/10/01", end="2002/09/20", irr="smt")
        C["alfalfa_deep"] = A.catalogue_spec("AlfalfaGDD", word="hot", end="2002/04/20")
        C["texture_soil"] = A.to_spec(A._b(crop="maize.2", win="w1", word="mix", soil="customtex", iwc="Pct50"))
        C["interval"] = A.to_spec(A._b(crop="maize.2", win="w2", word="dry", irr="int7e40"))
        C["const"] = A.to_spec(A._b(crop="maize.2", win="w2", word="dry", irr="const8e70"))
    return C


def scenarios(tier, seed=0):
    C = configs(tier)
    seqs = []
    for n in (1, 2, 3):
        seqs += [list(x) for x in itertools.product(["rerun", "rebuild"], repeat=n)]
    # every catalogue crop on the default profile (each has its own Zmax -> its own deepening) and on a thick-compartment list
    names = A.catalogue_names()
    for i, name in enumerate(names):
        for j, seq in enumerate((["rebuild", "rerun", "rebuild"], ["rerun", "rebuild", "rerun"])):
            if tier == "quick" and (i + j) % 2:
                continue
            yield {"kind": "seq", "config": f"cat:{name}", "ops": seq}
    # the same crops started BEFORE the planting date (pre-season days run on the fallow filler crop) on a wet, poorly drained soil,
    # where aeration-stress and minimum-rooting-depth parameters matter; plus keyword overrides of those parameters
    for i, name in enumerate(names):
        if tier == "quick" and i % 2 and name not in ("Barley", "Quinoa", "Tef", "AlfalfaGDD", "PaddyRice"):
            continue
        yield {"kind": "seq", "config": f"catpre:{name}", "ops": ["rebuild", "rerun", "rebuild"] if i % 2 else ["rerun", "rebuild", "rerun"]}
    for kw in ({"Zmin": 0.5}, {"Aer": 12}, {"Zmin": 0.2, "Aer": 2}):
        yield {"kind": "seq", "config": "kwpre:" + __import__("json").dumps(kw, sort_keys=True), "ops": ["rebuild", "rerun", "rebuild"]}
    for z in (0.6, 1.0, 1.3, 1.5, 1.7, 1.8, 2.0, 2.3, 2.8, 3.0):
        for dz in (("d12", "d15") if tier != "quick" else ("d12",)):
            yield {"kind": "seq", "config": f"zmax:{z}:{dz}", "ops": ["rebuild", "rerun", "rebuild"]}
    for name in C:
        for seq in seqs:
            if len(seq) < 3 and any(s2[:len(seq)] == seq for s2 in seqs if len(s2) > len(seq)):
                continue  # prefixes are covered by the longer sequences (every run in a sequence is compared)
            yield {"kind": "seq", "config": name, "ops": seq}


def entity_hash(ent):
    h = hashlib.sha256()
    for k in sorted(ent):
        v = ent[k]
        h.update(k.encode())
        if v is None:
            h.update(b"None")
        elif hasattr(v, "__dict__"):
            hash_obj_dict(h, v)
        else:
            _canon_value(h, v)
    return h.hexdigest()[:16]


def run(scn):
    from .. import ensure_repo_on_path
    from aquacrop import AquaCropModel

    ensure_repo_on_path()
    res = empty_result()
    wit = res["witness"]

    def hit(k):
        wit[k] = wit.get(k, 0) + 1

    cname = scn["config"]
    if cname.startswith("cat:"):
        spec = A.catalogue_spec(cname[4:], word="hot", irr="smt")
    elif cname.startswith("catpre:"):
        spec = A.catalogue_spec(cname[7:], word="showers", soil="Clay", iwc="SAT", start="2001/04/21")
    elif cname.startswith("kwpre:"):
        spec = A.catalogue_spec("Maize", word="showers", soil="Clay", iwc="SAT", start="2001/04/21", cropkw=__import__("json").loads(cname[6:]))
    elif cname.startswith("zmax:"):
        _, z, dz = cname.split(":")
        spec = A.to_spec(A._b(crop="maize.2", win="w1s", word="mix", dz=dz))
        spec["crop"]["kw"] = {"Zmax": float(z)}
    else:
        spec = configs("thorough")[cname]
    ent = S.make_entities(spec)
    h_before = entity_hash(ent)
    done = []
    try:
        with watchdog(600):
            model = S.make_model(spec, ent)
            model.run_model(till_termination=True)
            t0 = tables(model)
            d0 = tables_digest(t0)
            res["states"] = table_state_keys(t0)[0]
            res["transitions"] = table_state_keys(t0)[1]
            h = entity_hash(ent)
            if h != h_before:
                hit("user_objects_changed_by_first_run")
            for op in scn["ops"]:
                done.append(op)
                if op == "rerun":
                    model.run_model(till_termination=True)
                else:
                    model = S.make_model(spec, ent)
                    model.run_model(till_termination=True)
                res["evals"] += 1
                hit(op)
                t = tables(model)
                res["transitions"] += table_state_keys(t)[1]
                d = tables_digest(t)
                if d != d0:
                    from ._pairs import compare_all

                    diff = compare_all(t, t0)
                    res["violations"].append(V("later-run-reproduces-first-run", None, {"ops": list(done), "first_difference": diff}, "bitwise equal tables",
                                               config=scn["config"], op=op, sig=["differs", scn["config"], op]))
                    break
                h2 = entity_hash(ent)
                if h2 == h:
                    hit("fix_point_reached")
                h = h2
    except Timeout as e:
        res["aborted"] = {"exc_type": "Timeout", "exc_msg": str(e), "exc_origin": "watchdog"}
        res["violations"].append(V("later-run-terminates", None, {"ops": done}, "terminates", config=scn["config"]))
    except Exception as e:  # noqa: BLE001
        d = describe_exception(e)
        res["aborted"] = d
        if done:
            res["violations"].append(V("later-run-does-not-raise", None, {"ops": list(done), "exc": d["exc_type"], "origin": d["exc_origin"], "msg": d["exc_msg"][:160]},
                                       "no exception", config=scn["config"], op=done[-1], exc_type=d["exc_type"], sig=["raise", scn["config"], done[-1]]))
    for k, w in (("schedule", "schedule_config"), ("deep_rooted", "deepened_profile_config"), ("thermal", "thermal_config"), ("switchgdd", "switchgdd_config")):
        if scn["config"] == k:
            hit(w)
    return res


def describe(tier):
    return {
        "rule": "configurations exercising every write into a user object during initialisation (dated schedule, threshold list, deep-rooted crop that deepens "
                "soil.profile, harvest date written back, thermal crop, SwitchGDD=1, water table adding capillary parameters, adj_rew=0/calc_cn=1, constant CO2 with "
                "concentration 0 and 550, default InitialWaterContent, bunds+net irrigation" + ("" if tier == "quick" else ", full-length Wheat, AlfalfaGDD, texture soil, interval, constant depth")
                + ") x ALL sequences of length 3 over {rerun, rebuild} (every run in a sequence is compared, so shorter sequences are covered as prefixes); "
                "oracle: no operation raises and every run's table digest equals the first run's; the canonical hash of the user objects is tracked for fix-point detection.",
        "bound": "operation sequences over {rerun, rebuild} up to length 3, complete; closure by fix-point of the user-object hash",
        "exhaustive": True,
        "witnesses": WITNESSES,
        "assumptions": ["bitwise equality of all four tables (SHA-256 of raw bytes)"],
    }
