"""C13 Irrigation strategies honour their contracts -- DESIGN 3/C13."""
import copy
import itertools

from .. import alphabets as A
from .. import spec as S
from ..driver import execute
from ..monitors.irrigation import C13Irrigation
from ..runner import result_from_ctx, empty_result
from ._water import scenario_facts

PID = "C13"
LEVEL = "model_checking"
WITNESSES = ["stage_boundary_from_the_configuration", "yesterdays_potential_rates_checked", "day_outside_every_configured_season", "off_season_day", "edited_object_reused", "depletion_estimate_checked", "stage_after_delayed_germination", "irrigated_day", "threshold_exceeded_day", "threshold_stage_2", "threshold_stage_3", "threshold_stage_4",
             "interval_day", "scheduled_application", "scheduled_date_outside_season", "schedule_capped_by_daily_max",
             "net_irrigation_day", "seasonal_cap_binding", "daily_max_binding"]
NONTRIVIAL = [w for w in WITNESSES if w != "off_season_day"]

STRATS = (
    [(0, {}, None)]
    + [(1, {"SMT": smt}, None) for smt in ([100] * 4, [80, 60, 40, 20], [70] * 4, [0] * 4, [20, 40, 60, 80])]
    + [(2, {"IrrInterval": k}, None) for k in (1, 3, 7)]
    + [(3, {}, sch) for sch in ("empty", "inseason", "outside", "daily", "big", "beyond_window")]
    + [(4, {"NetIrrSMT": x}, None) for x in (50, 80, 100)]
    + [(5, {"depth": d}, None) for d in (0, 8, 40)]
)
MAXIRR = [25, 5, 0]
MAXSEASON = [10000, 60, 0]
APPEFF = [100, 70, 40, 72.5]   # fractional percentages are valid inputs


def irr_spec(method, kw, sch, maxirr, maxseason, eff, wetsurf=100):
    k = dict(kw)
    k.update({"MaxIrr": maxirr, "MaxIrrSeason": maxseason, "AppEff": eff, "WetSurf": wetsurf})
    d = {"method": method, "kw": k}
    if method == 3:
        d["schedule"] = sch
    return d


def scenarios(tier, seed=0):
    words = ["dry"] if tier == "quick" else ["dry", "normal"]
    crops = ["maize.2"] if tier == "quick" else ["maize.2", "potato.2"]
    for (method, kw, sch), mi, ms, eff, word, ck in itertools.product(STRATS, MAXIRR, MAXSEASON, APPEFF, words, crops):
        # threshold irrigation also from intermediate initial depletions (the day-1 decision depends on the stage-1 threshold)
        for iwc in (["WP", "FC", "Pct40", "Pct70"] if method == 1 else ["WP", "FC"]):
            c = A._b(crop=ck, iwc=iwc, word=word, win="w2", soil="SandyLoam")
            yield {"kind": "irr", "config": c, "irr": irr_spec(method, kw, sch, mi, ms, eff)}
    # seasons ended by a user-given latest harvest date BEFORE maturity, off-season simulated, more than one season: the harvest-date
    # day itself is a simulated off-season day
    for (method, kw, sch) in [x for x in STRATS if (x[0], x[2]) in ((5, None), (3, "daily"), (2, None), (1, None)) and x[1] not in ({"depth": 0}, {"SMT": [0] * 4})]:
        for win in ("w2", "w3"):
            c = A._b(crop="maize.2", iwc="FC", word="dry", win=win, soil="SandyLoam", off=True, harvest=12)
            yield {"kind": "irr", "config": c, "irr": irr_spec(method, kw, sch, 25, 10000, 100)}
    # water on consecutive days with a partially wetted surface and / or mulches (small daily maximum, high thresholds, interval 1)
    for (method, kw), wet, fm in itertools.product([(1, {"SMT": [80] * 4}), (1, {"SMT": [100] * 4}), (2, {"IrrInterval": 1})], (30, 60), ("none", "mulch50")):
        c = A._b(crop="maize.2", iwc="Pct70", word="dry", win="w2", soil="SandyLoam", field=fm)
        yield {"kind": "irr", "config": c, "irr": irr_spec(method, kw, None, 6, 10000, 90, wet)}
    # transplanted crops (PlantMethod 0: the first stage starts with the transplant-recovery lag) and the other crop kinds under stage-
    # dependent thresholds
    for ck, smt in itertools.product(("potato.2", "tomato.2", "rice.2", "cotton.2", "wheat.15"), ([10, 85, 85, 85], [80, 60, 40, 20])):
        c = A._b(crop=ck, iwc="FC", word="dry", win="w2", soil="SandyLoam")
        yield {"kind": "irr", "config": c, "irr": irr_spec(1, {"SMT": smt}, None, 8, 10000, 100)}
    # a threshold strategy left at its documented default thresholds, created after ANOTHER default strategy object was tuned in place
    for word in ("dry", "normal"):
        c = A._b(crop="maize.2", iwc="FC", word=word, win="w2", soil="SandyLoam")
        yield {"kind": "irr", "config": c, "irr": {"method": 1, "kw": {"MaxIrr": 25, "MaxIrrSeason": 10000, "AppEff": 100}, "default_smt_after_inplace_edit": 30}}
    # schedule tables built other ways than a datetime64 column: the docstring's DataFrame([dates, depths]).T (object-dtype columns of
    # timestamps), the same from date strings, rows listed latest first
    for style, sch, mi in itertools.product(("object_ts", "object_str", "reversed"), ("inseason", "big", "outside", "beyond_window"), (25, 5)):
        c = A._b(crop="maize.2", iwc="WP", word="dry", win="w2", soil="SandyLoam")
        ir = irr_spec(3, {}, sch, mi, 10000, 100)
        ir["schedule_style"] = style
        yield {"kind": "irr", "config": c, "irr": ir}
    # net irrigation (and the threshold strategy) on layered soils with a finer / coarser top layer, roots crossing the boundary
    for soil in ("clayoversand", "sandoverclay", "Tunis", "Paddy"):
        for (method, kw, sch) in [x for x in STRATS if x[0] in (1, 4)]:
            for word in ("dry", "normal"):
                c = A._b(crop="maize.2", iwc="FC", word=word, win="w2", soil=soil)
                yield {"kind": "irr", "config": c, "irr": irr_spec(method, kw, sch, 25, 10000, 100)}
    for name in ("Wheat",):
        for soil in ("Tunis", "clayoversand"):
            for smt in (50, 80):
                spec = A.catalogue_spec(name, word="showers", iwc="FC", soil=soil, planting="10/15", start="2001/10/15", end="2002/09/30")
                spec["irr"] = {"method": 4, "kw": {"NetIrrSMT": smt}}
                yield {"kind": "spec", "spec": spec, "label": ["net-layered", name, soil, smt]}
    # germination delayed by a dry seed bed (until the first shower), stage-dependent thresholds, calendar-day and thermal-time crops
    for thermal, smt, word in itertools.product([False, True], ([0, 70, 70, 40], [80, 60, 40, 20], [20, 40, 60, 80]), ("normal", "showers")):
        spec = A.to_spec(A._b(crop="maize.2", iwc="Pct10", word=word, win="w2", soil="SandyLoam"))
        if thermal:
            spec["crop"] = {"name": "MaizeGDD", "planting": "05/01", "harvest": "08/30", "scale": None, "gddscale": 0.15, "kw": {}}
        spec["irr"] = irr_spec(1, {"SMT": smt}, None, 25, 10000, 100)
        yield {"kind": "spec", "spec": spec, "label": ["delayed-germination", thermal, smt, word]}
    # crops whose (overridden) canopy parameters put the time to maximum canopy AFTER the start of senescence: the stage boundaries are
    # not ordered as usual, and the stage-3 threshold differs from its neighbours
    for name, kw in (("Barley", {"CGC_CD": 0.09}), ("Wheat", {"CGC_CD": 0.05}), ("Maize", {"CGC_CD": 0.06, "SenescenceCD": 70})):
        for smt in ([40, 40, 80, 40], [70, 70, 20, 70]):
            for word in ("dry", "warm"):
                spec = A.catalogue_spec(name, word=word, iwc="FC", soil="SandyLoam", cropkw=kw)
                spec["irr"] = irr_spec(1, {"SMT": smt}, None, 1000, 10000, 100)
                yield {"kind": "spec", "spec": spec, "label": ["unordered-stage-boundaries", name, smt, word]}
    # the same IrrigationManagement object used by a second model after the user edited one of its settings (trying several
    # schedules / thresholds / depths in a loop): the second model must honour the NEW setting
    for edit in ("schedule", "smt", "depth", "interval", "maxirr", "appeff", "maxseason", "netsmt"):
        for word in ("dry", "normal"):
            yield {"kind": "reuse", "edit": edit, "word": word}
    if tier != "quick":
        # starts after planting / off-season simulated / partial wetting / full-length crops
        for (method, kw, sch), off, wet in itertools.product(STRATS, [True], [100, 30]):
            c = A._b(crop="maize.2", iwc="WP", word="dry", win="w1", off=off, soil="Sand")
            yield {"kind": "irr", "config": c, "irr": irr_spec(method, kw, sch, 25, 10000, 70, wet)}
        for name, (method, kw, sch), ms in itertools.product(["Maize", "Wheat"], STRATS, [10000, 150]):
            spec = A.catalogue_spec(name, word="hot", iwc="WP", soil="SandyLoam")
            L = A.crop_length_days(spec["crop"])
            spec["irr"] = A.resolve_irr(irr_spec(method, kw, sch, 25, ms, 70), [A._d("2001/05/01")], L)
            yield {"kind": "spec", "spec": spec, "label": ["full", name, method]}


def build(scn):
    if scn["kind"] == "spec":
        return scn["spec"]
    spec = A.to_spec(scn["config"])
    ir = copy.deepcopy(scn["irr"])
    if ir["method"] == 3:
        if ir["schedule"] == "empty":
            ir["schedule"] = []
        else:
            L = A.crop_length_days(spec["crop"])
            y = A._d(spec["start"]).year
            mm, dd = (int(x) for x in spec["crop"]["planting"].split("/"))
            import datetime as dt
            pds = [dt.datetime(y + i, mm, dd) for i in range(A.WINDOWS[scn["config"]["win"]]["seasons"])]
            ir = A.resolve_irr(ir, pds, L)
    spec["irr"] = ir
    return spec


REUSE = {   # edit -> (first irrigation spec, attribute to overwrite on the live object, second irrigation spec)
    "schedule": ({"method": 3, "kw": {"MaxIrr": 30}, "schedule": "inseason"}, "Schedule", {"method": 3, "kw": {"MaxIrr": 30}, "schedule": "big"}),
    "smt": ({"method": 1, "kw": {"SMT": [80, 60, 40, 20]}}, "SMT", {"method": 1, "kw": {"SMT": [30, 50, 70, 90]}}),
    "depth": ({"method": 5, "kw": {"depth": 8}}, "depth", {"method": 5, "kw": {"depth": 3}}),
    "interval": ({"method": 2, "kw": {"IrrInterval": 3}}, "IrrInterval", {"method": 2, "kw": {"IrrInterval": 5}}),
    "maxirr": ({"method": 1, "kw": {"SMT": [70] * 4, "MaxIrr": 25}}, "MaxIrr", {"method": 1, "kw": {"SMT": [70] * 4, "MaxIrr": 6}}),
    "appeff": ({"method": 1, "kw": {"SMT": [70] * 4, "AppEff": 90}}, "AppEff", {"method": 1, "kw": {"SMT": [70] * 4, "AppEff": 60}}),
    "maxseason": ({"method": 5, "kw": {"depth": 8, "MaxIrrSeason": 10000}}, "MaxIrrSeason", {"method": 5, "kw": {"depth": 8, "MaxIrrSeason": 60}}),
    "netsmt": ({"method": 4, "kw": {"NetIrrSMT": 80}}, "NetIrrSMT", {"method": 4, "kw": {"NetIrrSMT": 50}}),
}


def run_reuse(scn):
    """History: model 1 runs with the object as first configured; the user then overwrites one public attribute of the SAME object
    and builds model 2 (same period) from it.  Model 2 is monitored against the edited configuration."""
    import datetime as dt
    from ..driver import run_plain

    first, attr, second = REUSE[scn["edit"]]
    base = A.to_spec(A._b(crop="maize.2", iwc="WP", word=scn["word"], win="w2", soil="SandyLoam"))
    L = A.crop_length_days(base["crop"])
    y = A._d(base["start"]).year
    mm, dd = (int(x) for x in base["crop"]["planting"].split("/"))
    pds = [dt.datetime(y + i, mm, dd) for i in range(2)]

    def full(ir):
        ir = copy.deepcopy(ir)
        return A.resolve_irr(ir, pds, L) if ir["method"] == 3 else ir

    spec1 = dict(base, irr=full(first))
    spec2 = dict(base, irr=full(second))
    ent = S.make_entities(spec1)
    t1, a1, _ = run_plain(spec1, entities=ent)
    if a1:
        res = empty_result()
        res["aborted"] = a1
        return res
    obj = ent["irrigation_management"]
    new_obj = S.make_irr(spec2["irr"])
    setattr(obj, attr, getattr(new_obj, attr))     # the user's edit of a public attribute
    ent2 = S.make_entities(spec2)
    ent2["irrigation_management"] = obj
    ctx = execute(spec2, [C13Irrigation()], pid=PID, timeout=120, entities=ent2)
    ctx.hit("edited_object_reused")
    for v in ctx.violations:
        v["facts"]["sig"] = [v["clause"], "reuse", scn["edit"]]
        v["facts"]["history"] = "object reused after editing " + attr
    return result_from_ctx(ctx)


def run(scn):
    if scn.get("kind") == "reuse":
        return run_reuse(scn)
    spec = build(scn)
    ctx = execute(spec, [C13Irrigation()], pid=PID, timeout=120)
    facts = scenario_facts(spec)
    for v in ctx.violations:
        for k, val in facts.items():
            v["facts"].setdefault(k, val)
        v["facts"]["sig"] = [v["clause"], facts["irr_method"]]
    return result_from_ctx(ctx)


def describe(tier):
    return {
        "rule": "the complete irrigation sub-product: 21 strategy settings (method 0; 1 x 5 threshold vectors (descending, ascending, constant) from WP / FC / 40 % / 70 % of TAW; 2 x 3 intervals; 3 x 6 schedules incl. "
                "empty / dates outside seasons / dates before the simulation start and after its end / every day / depth above the daily maximum; 4 x 3 targets; 5 x 3 depths) x MaxIrr {25,5,0} x "
                "MaxIrrSeason {10000,60,0} x AppEff {100,70,40,72.5} x initial water {WP,FC} x words x 2 seasons with pre-season days"
                + ("" if tier == "quick" else "; plus off-season/partial-wetting variants and Maize/Wheat at full length")
                + "; the per-strategy contract is evaluated on every transition, the threshold/interval decision and amount are re-computed from the "
                "inputs and outputs of the real irrigation() call captured by a pass-through wrapper and cross-checked against the IrrDay column.",
        "bound": "sub-product complete: 21 x 3 x 3 x 3 x (2 or 4 initial contents) x " + ("1 word x 1 crop" if tier == "quick" else "2 words x 2 crops"),
        "exhaustive": True,
        "witnesses": WITNESSES,
        "assumptions": ["'adjusted for application efficiency' is accepted either as x(200-AppEff)/100 (the code's) or as /(AppEff/100)",
                        "the depletion estimate D and TAW are the ones the irrigation decision itself returns"],
    }
