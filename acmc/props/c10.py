"""C10 Runs are deterministic and model instances are isolated -- DESIGN 3/C10."""
import copy
import itertools
import json
import os
import subprocess
import sys

from .. import alphabets as A
from .. import VERIF
from ..runner import empty_result
from ._pairs import V

PID = "C10"
REPLAY_MATCH = "fails"   # a non-determinism violation need not show the same digest twice; the fresh replay must fail the same clause
LEVEL = "model_checking"
WITNESSES = ["alone_run", "hash_seed_variant", "sequence_pair", "sequence_triple", "construct_then_run", "same_config_twice", "pool_batch", "interleaved_pair"]
NONTRIVIAL = ["hash_seed_variant", "sequence_pair", "sequence_triple", "construct_then_run", "same_config_twice", "pool_batch", "interleaved_pair"]


def q_specs():
    """Configurations chosen to touch every process-global the anchors name."""
    Q = {}
    Q["maize_default"] = A.to_spec(A._b(crop="maize.2", win="w1s", word="mix"))
    s = A.to_spec(A._b(crop="maize.2", win="w1s", word="mix"))
    s["crop"]["kw"] = {"CCx": 0.8, "Zmax": 1.0, "Tbase": 9.0}
    Q["maize_overrides"] = s
    Q["deep_rooted"] = A.to_spec(A._b(crop="cotton.2", win="w1s", word="normal", soil="Loam"))       # deepens the profile
    s = A.to_spec(A._b(crop="potato.2", win="w1", word="wet", soil="Clay"))
    s["iwc"] = None                                                                                  # InitialWaterContent() default lists
    Q["default_iwc"] = s
    Q["water_table"] = A.to_spec(A._b(crop="maize.2", win="w1s", word="dry", gw="0.8", soil="ClayLoam"))
    # layered soils with an initial water content that leaves the layer list to the constructor's default (a shared default object)
    for nm, soil in (("paddy_default_layer_list", "Paddy"), ("tunis_default_layer_list", "Tunis")):
        s = A.to_spec(A._b(crop="rice.2" if soil == "Paddy" else "maize.2", win="w1s", word="normal", soil=soil))
        s["iwc"] = {"value": ["FC"], "defaults_for_missing": True}
        Q[nm] = s
    # a custom soil whose only layer is thinner than the compartment list (the compartments below inherit its values), and an unrelated
    # soil with the SAME number of compartments (anything taken from recycled memory shows in the pair)
    s_ = A.to_spec(A._b(crop="wheat.15", win="w1s", word="normal", soil="shortlayer", dz="d15x9"))
    s_["crop"]["kw"] = dict(s_["crop"].get("kw") or {}, Zmax=1.0)
    Q["short_layer_soil"] = s_
    s_ = A.to_spec(A._b(crop="wheat.15", win="w1s", word="wet", soil="Clay", dz="d15x9"))
    s_["crop"]["kw"] = dict(s_["crop"].get("kw") or {}, Zmax=1.0)
    Q["clay_same_compartment_count"] = s_
    # several dated observations (string dates): anything that passes them through an unordered container shows under other hash seeds
    Q["water_table_series_c"] = A.to_spec(A._b(crop="maize.2", win="w1s", word="dry", gw="falling_c", soil="ClayLoam", dz="deep30"))
    Q["water_table_series_v"] = A.to_spec(A._b(crop="cotton.2", win="w1", word="normal", gw="rising_v", soil="SandyLoam", dz="deep30"))
    s = A.to_spec(A._b(crop="maize.2", win="w2", word="normal"))
    s["co2"] = {"constant_conc": True, "current_concentration": 550.0}
    Q["constant_co2"] = s
    Q["schedule"] = A.to_spec(A._b(crop="maize.2", win="w2", word="dry", irr="sched", iwc="WP"))
    s = A.to_spec(A._b(crop="rice.2", win="w1", word="wet", soil="Paddy", field="bunds50w20", irr="net80", iwc="SAT"))
    Q["paddy_bunds_net"] = s
    # two thermal-time configurations with the SAME window and planting date but different weather, started on the planting date
    for nm, word in (("thermal_hot", "hot"), ("thermal_warm", "warm")):
        s = A.to_spec(A._b(crop="maize.2", win="w1s", word=word))
        s["crop"] = {"name": "MaizeGDD", "planting": "05/01", "harvest": "08/30", "scale": None, "gddscale": 0.15, "kw": {}}
        s["end"] = "2002/09/15"
        Q[nm] = s
    # rare input conditions that a "report it once per process" branch would treat differently the second time: days with a reference
    # ET below the 0.1 mm floor that prepare_weather applies to files (user-built tables may carry them), frost days
    for nm, devs in (("low_et0_days", [[5, "Z"], [6, "Z"], [14, "Z"]]), ("low_et0_and_frost_days", [[3, "F"], [9, "Z"], [10, "L"], [15, "F"]])):
        c = A._b(crop="maize.2", win="w1s", word="normal")
        c["dev"] = devs
        Q[nm] = A.to_spec(c)
    return Q


def scenarios(tier, seed=0):
    Q = q_specs()
    names = list(Q)
    seeds = sorted({0, 1, 4242, int(seed)})
    for n in names:
        for hs in seeds:
            yield {"kind": "alone", "name": n, "hashseed": hs}
    for a, b in itertools.product(names, names):
        yield {"kind": "seq", "ops": [["run", a], ["run", b]], "hashseed": 0}
        if tier != "quick" or (names.index(a) + names.index(b)) % 2 == 0:
            yield {"kind": "seq", "ops": [["construct", a], ["run", b]], "hashseed": 1}
    if tier != "quick":
        for a, b, c in itertools.product(names, names, names):
            yield {"kind": "seq", "ops": [["run", a], ["init" if (names.index(a) + names.index(b)) % 2 else "run", b], ["run", c]], "hashseed": 4242 if names.index(c) % 2 else 0}
    # two live instances stepped alternately (every ordered pair; chunk sizes 1/1, and 3/2, 7/1 in the thorough tier)
    for a, b in itertools.product(names, names):
        for chunks in ([[1, 1]] if tier == "quick" else [[1, 1], [3, 2], [7, 1]]):
            if tier == "quick" and (names.index(a) + names.index(b)) % 2:
                continue
            yield {"kind": "interleave", "names": [a, b], "chunks": chunks, "hashseed": 0}
    for size in ([1, 4] if tier == "quick" else [1, 4, 16]):
        yield {"kind": "pool", "size": size, "hashseed": 0}


_BASE = {}


def iso(ops, hashseed, want_globals=True, timeout=600):
    env = dict(os.environ)
    env["PYTHONHASHSEED"] = str(hashseed)
    env["PYTHONDONTWRITEBYTECODE"] = "1"
    p = subprocess.run([sys.executable, "-W", "ignore", "-m", "acmc.iso_worker"], input=json.dumps({"ops": ops, "globals": want_globals}),
                       capture_output=True, text=True, cwd=VERIF, env=env, timeout=timeout)
    for line in p.stdout.splitlines():
        if line.startswith("ISO-JSON "):
            return json.loads(line[9:])
    raise RuntimeError("iso worker failed: " + (p.stdout + p.stderr)[-1500:])


def baseline(name, Q):
    """Digest of the configuration run alone in a fresh interpreter (hash seed 0)."""
    if name not in _BASE:
        r = iso([["run", Q[name]]], 0, want_globals=False)
        _BASE[name] = r["digests"][0]
    return _BASE[name]


def run(scn):
    res = empty_result()
    Q = q_specs()
    wit = res["witness"]

    def hit(k):
        wit[k] = wit.get(k, 0) + 1

    if scn["kind"] == "alone":
        r = iso([["run", Q[scn["name"]]]], scn["hashseed"])
        res["evals"] = 1
        base = baseline(scn["name"], Q)
        if r["errors"]:
            res["aborted"] = r["errors"][0]
        elif r["digests"][0] != base:
            res["violations"].append(V("same-inputs-same-bits-across-interpreters", None, {"digest": r["digests"][0], "hashseed": scn["hashseed"]}, {"digest": base, "hashseed": 0}, config=scn["name"]))
        if r["changed"]:
            res["violations"].append(V("process-global-state-unchanged", None, r["changed"], "no change of module-level state / defaults", config=scn["name"], sig=["globals", r["changed"][0]["keys"][:2]]))
        hit("alone_run")
        if scn["hashseed"] != 0:
            hit("hash_seed_variant")
    elif scn["kind"] == "seq":
        ops = [[op, Q[n]] for op, n in scn["ops"]]
        r = iso(ops, scn["hashseed"])
        res["evals"] = len(ops)
        last = scn["ops"][-1][1]
        base = baseline(last, Q)
        if r["errors"]:
            res["aborted"] = r["errors"][0]
            res["violations"].append(V("sequence-raises", None, r["errors"][0], "no exception", ops=scn["ops"], sig=["raise", r["errors"][0].get("exc_origin")]))
        else:
            for (op, n), dg in zip(scn["ops"], r["digests"]):
                if op == "run" and dg != baseline(n, Q):
                    res["violations"].append(V("run-after-others-equals-run-alone", None, {"ops": scn["ops"], "config": n, "digest": dg}, {"alone": baseline(n, Q)}, config=n, sig=["isolation", n]))
                    break
        if r["changed"]:
            res["violations"].append(V("process-global-state-unchanged", None, r["changed"], "no change of module-level state / defaults", ops=scn["ops"], sig=["globals", r["changed"][0]["keys"][:2]]))
        hit("sequence_pair" if len(ops) == 2 else "sequence_triple")
        if scn["ops"][0][0] == "construct":
            hit("construct_then_run")
        if len({n for _, n in scn["ops"]}) < len(scn["ops"]):
            hit("same_config_twice")
    elif scn["kind"] == "interleave":
        r = iso([["interleave", {"specs": [Q[n] for n in scn["names"]], "chunks": scn["chunks"]}]], scn["hashseed"])
        res["evals"] = 2
        if r["errors"]:
            res["aborted"] = r["errors"][0]
            res["violations"].append(V("interleaved-stepping-raises", None, r["errors"][0], "no exception", names=scn["names"], sig=["raise-interleave", r["errors"][0].get("exc_origin")]))
        else:
            for n, dg in zip(scn["names"], r["digests"][0]):
                if dg != baseline(n, Q):
                    res["violations"].append(V("interleaved-instances-are-isolated", None, {"names": scn["names"], "chunks": scn["chunks"], "config": n, "digest": dg}, {"alone": baseline(n, Q)}, config=n, sig=["interleave", n]))
                    break
        if r["changed"]:
            res["violations"].append(V("process-global-state-unchanged", None, r["changed"], "no change of module-level state / defaults", names=scn["names"], sig=["globals", r["changed"][0]["keys"][:2]]))
        hit("interleaved_pair")
    elif scn["kind"] == "pool":
        names = list(Q)
        specs = [Q[n] for n in names] * 2
        r = iso([["pool", {"specs": specs, "size": scn["size"]}]], scn["hashseed"], want_globals=False)
        res["evals"] = len(specs)
        if r["errors"]:
            res["aborted"] = r["errors"][0]
        else:
            for n, dg in zip(names * 2, r["digests"][0]):
                if dg != baseline(n, Q):
                    res["violations"].append(V("worker-assignment-independent", None, {"pool": scn["size"], "config": n, "digest": dg}, {"alone": baseline(n, Q)}, config=n))
                    break
        hit("pool_batch")
    res["transitions"] = res["evals"]
    try:
        st = set()
        for dg in r.get("digests", []):
            for x in (dg if isinstance(dg, list) else [dg]):
                if isinstance(x, str):
                    st.add(bytes.fromhex(x[:16]))
        for gh in r.get("globals", []):
            st.add(bytes.fromhex(gh[:16]))
        res["states"] = b"".join(sorted(st))
    except Exception:  # noqa: BLE001
        pass
    return res


def describe(tier):
    return {
        "rule": "a set Q of 10 configurations touching every process-global named in the anchors (catalogue crop, keyword overrides, default thickness list, "
                "profile deepening, default InitialWaterContent/GroundWater lists, water table, constant CO2, dated schedule, bunds+net irrigation, two thermal-time crops with identical dates but different weather); each alone in a "
                "fresh interpreter under PYTHONHASHSEED {0,1,4242,VERIF_SEED}; ALL ordered pairs (run A, run B) and (construct A, run B)"
                + ("" if tier == "quick" else "; ALL ordered triples (run/init/run)") + "; two live instances of every ordered pair stepped ALTERNATELY in one process (chunk sizes 1/1" + ("" if tier == "quick" else ", 3/2, 7/1") + "); the batch under pool sizes {1,4" + ("" if tier == "quick" else ",16") + "}. Oracle: SHA-256 of "
                "the raw bytes of all four tables = digest of the configuration run alone; a global-state monitor hashes every non-callable module-level object, "
                "class attribute and default-argument tuple of aquacrop.* and numpy.geterr() after every operation: it must never change (fix-point => isolation for "
                "histories of any length). Every sequence runs in its own fresh interpreter.",
        "bound": "operation sequences of length <= " + ("2" if tier == "quick" else "3") + f" over |Q| = {len(q_specs())}" + (": every ordered pair run-then-run, every second ordered pair construct-then-run" if tier == "quick" else ", complete"),
        "exhaustive": True,
        "witnesses": WITNESSES,
        "assumptions": ["bitwise equality on one interpreter/numpy build", "state held outside aquacrop.* modules (pandas/numpy internals) is observed only through its effect on the tables"],
    }
