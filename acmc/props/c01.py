"""C01 Daily soil-water balance closes (mass conservation) -- DESIGN 3/C01."""
from . import _water as W
from .. import alphabets as A
from ..monitors.water import C01Ledger

PID = "C01"
LEVEL = "model_checking"
WITNESSES = ["runoff_day", "deep_perc_day", "capillary_rise_day", "gwin_day", "ponded_day", "bund_removal_day",
             "pre_irrigation_day", "season_reset", "irrigation_day", "transpiration_day"]

NONTRIVIAL = ['runoff_day', 'capillary_rise_day', 'gwin_day', 'ponded_day', 'bund_removal_day', 'pre_irrigation_day', 'season_reset']


def scenarios(tier, seed=0):
    yield from W.water_scenarios(tier)


def run(scn):
    return W.run_with(scn, C01Ledger, PID)


shrink = W.shrink_config


def describe(tier):
    d = 1 if tier == "quick" else 2
    return {
        "rule": f"every configuration within d deviations of {len(A.WATER_BASES)} water bases (soil x thickness list x initial water x irrigation "
                "x field/fallow management x groundwater x off-season x crop x weather word x window), plus every single-day "
                "weather deviation {S,M,D,C} on the executed days of each base"
                + ", plus 4 full-length crops x 6 variants on recorded station weather, the same model object re-run after a new weather table was set, and records with gaps / duplicates / repeated index labels before the window"
                + ("" if tier == "quick" else ", plus pairs of deviating days on a grid")
                + "; one execution = a real AquaCropModel stepped one _perform_timestep at a time to termination; the ledger and the "
                "carry-over relation are evaluated on every transition. Non-trivial = the execution hit at least one regime witness.",
        "bound": f"config deviations d<={d}; weather deviations <= {1 if tier == 'quick' else 2} days (stride {4 if tier == 'quick' else 1}); all executions run to termination",
        "exhaustive": True,
        "witnesses": WITNESSES,
        "assumptions": [
            "storage is read from the model state before the step and from the storage/flux rows after it",
            "weather values are limited to the symbols of the alphabet (acmc/spec.py SYMBOLS) and the recorded station files; parameter values to the menus in acmc/alphabets.py",
            "tolerance 1e-6 mm (+0.05 mm per metre of profile on days with reported capillary rise), as in the statement",
        ],
    }
