"""C06 Yields and seasonal totals agree with the daily tables -- DESIGN 3/C06."""
import itertools

from .. import alphabets as A
from ..driver import execute
from ..monitors.crop import C06Yields
from ..runner import result_from_ctx
from ._water import scenario_facts

PID = "C06"
LEVEL = "model_checking"
WITNESSES = ["harvest", "harvest_after_death", "multi_season_summary", "season_with_irrigation", "seasonal_cap_binding",
             "season_cut_by_end_date", "pre_irrigation_day", "wpy_reduced_gain_day", "et0_below_floor_day", "co2_above_reference_season", "public_tables_by_name"]
NONTRIVIAL = ["harvest_after_death", "multi_season_summary", "seasonal_cap_binding", "season_cut_by_end_date",
              "pre_irrigation_day", "wpy_reduced_gain_day", "season_with_irrigation"]

IRRS = ["none", "smt_cap60", "int3", "sched", "net80", "const8e70"]


def scenarios(tier, seed=0):
    names = A.catalogue_names()
    for ni, name in enumerate(names):
        for ii, irr in enumerate(IRRS):
            for wi, (word, frm) in enumerate([("warm", None), ("warm", [20, "D"])]):
                if tier == "quick" and ((ni + ii + wi) % 2 == 1):
                    continue
                iwc = "WP" if irr == "net80" else "FC"
                spec = A.catalogue_spec(name, word=word, frm=frm, irr=irr, iwc=iwc)
                yield {"kind": "spec", "spec": spec, "label": ["catalogue", name, irr, word, bool(frm)]}
    # multi-season part on scaled crops
    scaled = ["maize.2", "cotton.2", "potato.2", "soybean.2"] if tier == "quick" else ["maize.2", "cotton.2", "potato.2", "soybean.2", "rice.2", "wheat.15", "tomato.2", "maize.1"]
    for ck in scaled:
        for irr in IRRS:
            for win in ("w1", "w2", "w3"):
                for off in (False, True):
                    if off and win == "w3":
                        continue
                    for word in (("normal", "dry") if tier != "quick" else ("normal",)):
                        iwc = "WP" if irr == "net80" else "FC"
                        c = A._b(crop=ck, irr=irr, win=win, off=off, word=word, iwc=iwc, soil="Sand" if word == "dry" else "SandyLoam")
                        yield {"kind": "config", "config": c}
    # in-season days with reference ET below the 0.1 mm floor of prepare_weather (user-built weather tables)
    for ck in scaled[:4]:
        L = A.crop_length_days(A.CROPS[ck])
        for irr in ("none", "smt"):
            c = A._b(crop=ck, irr=irr, win="w1s", word="normal")
            c["dev"] = [[d, "Z"] for d in range(L // 3, L // 3 + 3)] + [[L // 2 + 2, "Z"], [L - 4, "L"]]
            yield {"kind": "config", "config": c}
    # keyword overrides of the accounting parameters with FRACTIONAL values (grain at 14.5 % moisture -> YldWC 85.5): the expected
    # identities use the value the user passed, not what the Crop object reports afterwards
    for name in (["Maize", "Wheat", "Potato"] if tier == "quick" else ["Maize", "Wheat", "Potato", "Tomato", "Cotton", "SugarBeet"]):
        for kw in ({"YldWC": 85.5}, {"YldWC": 12.5}, {"YldWC": 20.25, "WP": 17.5, "WPy": 82.5, "HI0": 0.475}):
            spec = A.catalogue_spec(name, word="warm", irr="smt", iwc="FC", cropkw=kw)
            yield {"kind": "spec", "spec": spec, "label": ["fractional-overrides", name, kw]}
    # caps that bind every day: a constant depth above the daily maximum, a small daily maximum under a seasonal cap (the seasonal total
    # of the summary must be the sum of what the daily column reports)
    for ck in scaled[:3]:
        for irr in ("const15max10", "smt_max6_season100"):
            for win in ("w2", "w3"):
                yield {"kind": "config", "config": A._b(crop=ck, irr=irr, win=win, word="dry", iwc="WP", soil="SandyLoam")}
    # a season cut by the end date: window ends mid-season of the last scheduled season
    for ck in scaled[:4]:
        c = A._b(crop=ck, irr="smt", win="w2", word="normal")
        spec = A.to_spec(c)
        L = A.crop_length_days(A.CROPS[ck])
        for cut in (L // 2, L - 1, L, L + 1):
            s2 = dict(spec)
            s2["end"] = A._f(A._d("2002/05/01") + __import__("datetime").timedelta(days=cut))
            yield {"kind": "spec", "spec": s2, "label": ["cut", ck, cut]}


    # the labelled tables of the public getters, related to each other by column NAME
    for ck, irr, off in itertools.product(["maize.2", "cotton.2", "potato.2"], ["smt_cap60", "sched", "net80", "none"], [False, True]):
        c = A._b(crop=ck, irr=irr, win="w3" if not off else "w2", off=off, word="normal", iwc="WP" if irr == "net80" else "FC")
        yield {"kind": "public", "spec": A.to_spec(c)}
    for name in (["Wheat", "Maize", "localpaddy"] if tier == "quick" else names[::4]):
        yield {"kind": "public", "spec": A.catalogue_spec(name, word="warm", irr="smt", end="2003/04/20")}
    # season numbers that do not line up with simulation years (start after the planting day: the first partial season is dropped) and
    # CO2 options, C3 crops (water productivity adjusted for CO2), several seasons
    for name in (["Wheat", "Potato", "Cotton"] if tier == "quick" else ["Wheat", "Potato", "Cotton", "Soybean", "Barley", "Tomato", "Maize"]):
        for co2 in (None, {"table": [[1990, 350.0], [2001, 380.0], [2002, 420.0], [2003, 480.0], [2004, 560.0], [2050, 900.0]]}, {"constant_conc": True, "current_concentration": 600.0},
                    # a plateau: consecutive seasons with exactly the same concentration, different from the first simulated year
                    {"table": [[1990, 340.0], [2001, 340.0], [2002, 550.0], [2003, 550.0], [2004, 550.0], [2050, 550.0]]},
                    {"table": [[1990, 700.0], [2001, 700.0], [2002, 400.0], [2010, 400.0]]},
                    # a reference concentration other than the default
                    {"ref_concentration": 350.0, "table": [[1980, 350.0], [2000, 390.0], [2010, 430.0]]},
                    {"ref_concentration": 400.0, "constant_conc": True, "current_concentration": 380.0},
                    # not annual over the simulated years: every season's concentration is an interpolated one
                    {"table": [[1990, 340.0], [2000, 365.0], [2005, 450.0], [2012, 600.0]]}):
            for start in ("2001/06/15", "2001/05/01", "2001/03/10"):
                spec = A.catalogue_spec(name, word="warm", irr="smt", start=start, end="2004/04/20", co2=co2)
                yield {"kind": "spec", "spec": spec, "label": ["co2-years", name, bool(co2), start]}


FLUX_NAMES = "time_step_counter season_counter dap Wr z_gw surface_storage IrrDay Infl Runoff DeepPerc CR GwIn Es EsPot Tr TrPot".split()
GROWTH_NAMES = ("time_step_counter season_counter dap gdd gdd_cum z_root canopy_cover canopy_cover_ns biomass biomass_ns "
                "harvest_index harvest_index_adj DryYield FreshYield YieldPot").split()
SUMMARY_NAMES = ["Season", "crop Type", "Harvest Date (YYYY/MM/DD)", "Harvest Date (Step)", "Dry yield (tonne/ha)", "Fresh yield (tonne/ha)",
                 "Yield potential (tonne/ha)", "Seasonal irrigation (mm)"]


def run_public(scn):
    """The user's view: the LABELLED tables of the public getters after run_model(till_termination=True).  The summary row is related
    to the daily tables BY COLUMN NAME (a mislabelled or re-ordered column cancels in every positional / differential comparison)."""
    import numpy as np
    import pandas as pd
    from ..driver import run_plain
    from ..runner import empty_result
    from ._pairs import V

    res = empty_result()
    spec = scn["spec"]
    t, a, m = run_plain(spec, timeout=120)
    res["evals"] = 1
    if a:
        res["aborted"] = a
        return res
    flux, growth, summ = m.get_water_flux(), m.get_crop_growth(), m.get_simulation_results()
    res["transitions"] = int(len(flux))
    res["witness"]["public_tables_by_name"] = 1

    def bad(clause, obs, exp):
        res["violations"].append(V(clause, None, obs, exp, crop=spec["crop"]["name"], sig=[clause]))

    for nm, df, want in (("water_flux", flux, FLUX_NAMES), ("crop_growth", growth, GROWTH_NAMES), ("summary", summ, SUMMARY_NAMES)):
        if list(map(str, df.columns)) != want:
            bad("documented-column-names", {"table": nm, "columns": list(map(str, df.columns))}, want)
            return res
    start = pd.Timestamp(m._clock_struct.simulation_start_date)
    for _, r in summ.iterrows():
        k = int(r["Season"])
        step = int(r["Harvest Date (Step)"])
        g = growth.iloc[step]
        for col, gcol in (("Dry yield (tonne/ha)", "DryYield"), ("Fresh yield (tonne/ha)", "FreshYield"), ("Yield potential (tonne/ha)", "YieldPot")):
            a_, b_ = float(r[col]), float(g[gcol])
            if not (a_ == b_ or (a_ != a_ and b_ != b_)):
                bad("summary-equals-named-daily-column", {"season": k, "summary": col, "value": a_}, {gcol + " at the harvest step": b_})
        if pd.Timestamp(r["Harvest Date (YYYY/MM/DD)"]) != start + pd.Timedelta(days=step + 1):
            bad("summary-harvest-date-follows-harvest-step", {"season": k, "date": str(r["Harvest Date (YYYY/MM/DD)"]), "step": step}, str(start + pd.Timedelta(days=step + 1)))
        rows = flux[(flux["season_counter"] == k) & (flux["dap"] > 0)]
        tot = float(rows["IrrDay"].sum())
        if abs(tot - float(r["Seasonal irrigation (mm)"])) > 1e-9 * max(1.0, abs(tot)):
            bad("summary-irrigation-equals-named-column-sum", {"season": k, "summary": float(r["Seasonal irrigation (mm)"])}, {"sum of IrrDay": tot})
        if float(g["dap"]) <= 0 or int(g["season_counter"]) != k:
            bad("summary-harvest-step-is-an-in-season-day", {"season": k, "step": step, "dap": float(g["dap"])}, "dap > 0 in that season")
    # named daily columns against each other (labels vs content): dry yield = biomass/100 x adjusted harvest index; Es <= EsPot
    gs = growth[growth["dap"] > 0]
    if len(gs) and not np.allclose(gs["DryYield"].values, gs["biomass"].values / 100.0 * gs["harvest_index_adj"].values, rtol=0, atol=1e-12, equal_nan=True):
        bad("named-columns-dry-yield-identity", "DryYield != biomass/100 * harvest_index_adj", "equal")
    if (flux["Es"].values > flux["EsPot"].values + 1e-9).any() or (flux["Tr"].values > flux["TrPot"].values + 1e-9).any():
        bad("named-columns-actual-le-potential", "Es > EsPot or Tr > TrPot by column name", "actual <= potential")
    return res


def run(scn):
    if scn.get("kind") == "public":
        return run_public(scn)
    spec = scn["spec"] if scn["kind"] == "spec" else A.to_spec(scn["config"])
    ctx = execute(spec, [C06Yields()], pid=PID, timeout=120)
    facts = scenario_facts(spec)
    for v in ctx.violations:
        for k, val in facts.items():
            v["facts"].setdefault(k, val)
        v["facts"]["sig"] = [v["clause"], spec["crop"]["name"]]
    return result_from_ctx(ctx)


def describe(tier):
    return {
        "rule": "all 37 catalogue crops x 6 irrigation strategies (rainfed; threshold with a 60 mm seasonal cap; interval; dated schedule; net irrigation "
                "from a wilting-point start; constant depth) x {warm word, drought from day 20 (death before maturity)}"
                + (" (every second cell in the quick tier)" if tier == "quick" else "") + ", plus scaled crops x 6 strategies x 1-3 seasons x off-season on/off, plus "
                "windows cut at 4 points around the last season's maturity; daily identities are evaluated on every in-season transition, the "
                "summary-vs-tables relations once per execution. Non-trivial = at least one of the named regimes hit.",
        "bound": "catalogue product 37x6x2" + (" /2" if tier == "quick" else "") + "; scaled crops x strategies x windows complete",
        "exhaustive": True,
        "witnesses": WITNESSES,
        "assumptions": ["daily identities are exact float recomputations; seasonal irrigation within 1e-9 relative",
                        "the harvest transition is recognised by the summary table gaining a row during that transition"],
    }
