"""C06 Yields and seasonal totals agree with the daily tables -- DESIGN 3/C06."""
from .. import alphabets as A
from ..driver import execute
from ..monitors.crop import C06Yields
from ..runner import result_from_ctx
from ._water import scenario_facts

PID = "C06"
LEVEL = "model_checking"
WITNESSES = ["harvest", "harvest_after_death", "multi_season_summary", "season_with_irrigation", "seasonal_cap_binding",
             "season_cut_by_end_date", "pre_irrigation_day", "wpy_reduced_gain_day", "et0_below_floor_day", "co2_above_reference_season"]
NONTRIVIAL = ["harvest_after_death", "multi_season_summary", "seasonal_cap_binding", "season_cut_by_end_date",
              "pre_irrigation_day", "wpy_reduced_gain_day", "season_with_irrigation"]

IRRS = ["none", "smt_cap60", "int3", "sched", "net80", "const8e70"]


def scenarios(tier, seed=0):
    names = A.catalogue_names()
    for ni, name in enumerate(names):
        for ii, irr in enumerate(IRRS):
            for wi, (word, frm) in enumerate([("warm", None), ("warm", [20, "D"])]):
                if tier == "quick" and ((ni + ii + wi) % 2 == 1):
                    continue
                iwc = "WP" if irr == "net80" else "FC"
                spec = A.catalogue_spec(name, word=word, frm=frm, irr=irr, iwc=iwc)
                yield {"kind": "spec", "spec": spec, "label": ["catalogue", name, irr, word, bool(frm)]}
    # multi-season part on scaled crops
    scaled = ["maize.2", "cotton.2", "potato.2", "soybean.2"] if tier == "quick" else ["maize.2", "cotton.2", "potato.2", "soybean.2", "rice.2", "wheat.15", "tomato.2", "maize.1"]
    for ck in scaled:
        for irr in IRRS:
            for win in ("w1", "w2", "w3"):
                for off in (False, True):
                    if off and win == "w3":
                        continue
                    for word in (("normal", "dry") if tier != "quick" else ("normal",)):
                        iwc = "WP" if irr == "net80" else "FC"
                        c = A._b(crop=ck, irr=irr, win=win, off=off, word=word, iwc=iwc, soil="Sand" if word == "dry" else "SandyLoam")
                        yield {"kind": "config", "config": c}
    # in-season days with reference ET below the 0.1 mm floor of prepare_weather (user-built weather tables)
    for ck in scaled[:4]:
        L = A.crop_length_days(A.CROPS[ck])
        for irr in ("none", "smt"):
            c = A._b(crop=ck, irr=irr, win="w1s", word="normal")
            c["dev"] = [[d, "Z"] for d in range(L // 3, L // 3 + 3)] + [[L // 2 + 2, "Z"], [L - 4, "L"]]
            yield {"kind": "config", "config": c}
    # a season cut by the end date: window ends mid-season of the last scheduled season
    for ck in scaled[:4]:
        c = A._b(crop=ck, irr="smt", win="w2", word="normal")
        spec = A.to_spec(c)
        L = A.crop_length_days(A.CROPS[ck])
        for cut in (L // 2, L - 1, L, L + 1):
            s2 = dict(spec)
            s2["end"] = A._f(A._d("2002/05/01") + __import__("datetime").timedelta(days=cut))
            yield {"kind": "spec", "spec": s2, "label": ["cut", ck, cut]}


    # season numbers that do not line up with simulation years (start after the planting day: the first partial season is dropped) and
    # CO2 options, C3 crops (water productivity adjusted for CO2), several seasons
    for name in (["Wheat", "Potato", "Cotton"] if tier == "quick" else ["Wheat", "Potato", "Cotton", "Soybean", "Barley", "Tomato", "Maize"]):
        for co2 in (None, {"table": [[1990, 350.0], [2001, 380.0], [2002, 420.0], [2003, 480.0], [2004, 560.0], [2050, 900.0]]}, {"constant_conc": True, "current_concentration": 600.0},
                    # a plateau: consecutive seasons with exactly the same concentration, different from the first simulated year
                    {"table": [[1990, 340.0], [2001, 340.0], [2002, 550.0], [2003, 550.0], [2004, 550.0], [2050, 550.0]]},
                    {"table": [[1990, 700.0], [2001, 700.0], [2002, 400.0], [2010, 400.0]]},
                    # not annual over the simulated years: every season's concentration is an interpolated one
                    {"table": [[1990, 340.0], [2000, 365.0], [2005, 450.0], [2012, 600.0]]}):
            for start in ("2001/06/15", "2001/05/01", "2001/03/10"):
                spec = A.catalogue_spec(name, word="warm", irr="smt", start=start, end="2004/04/20", co2=co2)
                yield {"kind": "spec", "spec": spec, "label": ["co2-years", name, bool(co2), start]}


def run(scn):
    spec = scn["spec"] if scn["kind"] == "spec" else A.to_spec(scn["config"])
    ctx = execute(spec, [C06Yields()], pid=PID, timeout=120)
    facts = scenario_facts(spec)
    for v in ctx.violations:
        for k, val in facts.items():
            v["facts"].setdefault(k, val)
        v["facts"]["sig"] = [v["clause"], spec["crop"]["name"]]
    return result_from_ctx(ctx)


def describe(tier):
    return {
        "rule": "all 37 catalogue crops x 6 irrigation strategies (rainfed; threshold with a 60 mm seasonal cap; interval; dated schedule; net irrigation "
                "from a wilting-point start; constant depth) x {warm word, drought from day 20 (death before maturity)}"
                + (" (every second cell in the quick tier)" if tier == "quick" else "") + ", plus scaled crops x 6 strategies x 1-3 seasons x off-season on/off, plus "
                "windows cut at 4 points around the last season's maturity; daily identities are evaluated on every in-season transition, the "
                "summary-vs-tables relations once per execution. Non-trivial = at least one of the named regimes hit.",
        "bound": "catalogue product 37x6x2" + (" /2" if tier == "quick" else "") + "; scaled crops x strategies x windows complete",
        "exhaustive": True,
        "witnesses": WITNESSES,
        "assumptions": ["daily identities are exact float recomputations; seasonal irrigation within 1e-9 relative",
                        "the harvest transition is recognised by the summary table gaining a row during that transition"],
    }
