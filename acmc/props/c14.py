"""C14 No look-ahead: past outputs do not depend on future weather -- DESIGN 3/C14."""
import copy
import datetime as dt
import itertools

import numpy as np

from .. import alphabets as A
from .. import spec as S
from ..driver import run_plain, FX
from ..runner import empty_result
from ._pairs import compare_tables, compare_all, executed_rows, table_state_keys, V, nan_safe

PID = "C14"
LEVEL = "model_checking"
WITNESSES = ["cut_day_compared", "cut_in_season", "cut_changes_future", "extra_rows_pair", "end_extension_pair", "extension_adds_season", "thermal_crop_pair", "extension_with_off_season", "seasons_of_unequal_thermal_length", "season_expected_from_the_configuration", "end_just_after_a_short_last_thermal_season"]
NONTRIVIAL = ["cut_changes_future", "extra_rows_pair", "end_extension_pair"]

CUT_CONFIGS = {
    "rainfed": dict(irr="none"),
    "smt": dict(irr="smt", iwc="WP"),
    "net": dict(irr="net80", iwc="WP"),
    "gw": dict(gw="1.5", dz="deep30"),
    "bunds": dict(field="bunds50w20", soil="Clay"),
}
TAILS = ["S", "H", "C", "D"]


def scaled_names():
    return [n for n in A.calendar_crop_names() if n not in ("SugarCane", "Cassava")]


def scenarios(tier, seed=0):
    q = tier == "quick"
    names = ["Maize", "Potato", "Cotton", "Wheat", "Tomato", "PaddyRice"] if q else scaled_names()
    cfgs = ["rainfed", "smt", "net"] if q else list(CUT_CONFIGS)
    for name, cfg in itertools.product(names, cfgs):
        A.CROPS[f"{name}@.15"] = {"name": name, "scale": 0.15}
        c = A._b(crop=f"{name}@.15", win={"pre": 3, "seasons": 2}, word="mix", **CUT_CONFIGS[cfg])
        spec = A.to_spec(c)
        n = (A._d(spec["end"]) - A._d(spec["start"])).days
        L = A.crop_length_days(spec["crop"])
        cuts = list(range(0, 3 + L + 2)) + list(range(365 + 3 - 1, 365 + 3 + L + 2))
        cuts = [t for t in cuts if t < n]
        if q:
            cuts = cuts[::3]
        B = 12
        for i in range(0, len(cuts), B):
            yield {"kind": "cut", "spec": spec, "cuts": cuts[i:i + B], "tails": TAILS[:2] if q else TAILS, "label": [name, cfg]}
    if not q:
        for name in ["Wheat", "Maize", "Potato"]:
            spec = A.catalogue_spec(name, word="mix", irr="smt")
            L = A.crop_length_days(spec["crop"])
            cuts = list(range(0, L + 2, 5))
            for i in range(0, len(cuts), 6):
                yield {"kind": "cut", "spec": spec, "cuts": cuts[i:i + 6], "tails": TAILS, "label": [name, "full"]}
    # weather records outside the window: all 37 crops
    allnames = A.catalogue_names()
    for name in allnames:
        for lead, trail in ([(400, 400)] if q else [(400, 0), (0, 400), (4000, 4000)]):
            yield {"kind": "extra", "name": name, "lead": lead, "trail": trail}
        # irregular rows outside the window: leading rows dropped without re-indexing, a gap, a duplicate
        var = [{"keep_labels_from": 150}, {"drop_lead_rows": [100, 103]}, {"dup_lead_row": 37}, {"drop_trail_rows": [20, 25]}]
        for vi, v in enumerate(var):
            if q and (allnames.index(name) + vi) % 4:
                continue
            yield {"kind": "extra", "name": name, "lead": 400, "trail": 400, "irregular": v}
    # extending the end date: built-in crops
    for name in (allnames[::3] if q else allnames):
        for ext in ([1, 365] if q else [1, 30, 365, 730]):
            yield {"kind": "extend", "name": name, "ext": ext}
    # end dates on every side of the planting month/day (two seasons completed, a third planting date on / just before / after the end date)
    for name in (["Maize", "Tomato"] if q else [n for n in allnames if not n.endswith("GDD")][::3]):
        for end in ("2003/01/01", "2003/04/30", "2003/05/01", "2003/05/02", "2003/06/15"):
            for ext in ((30, 365) if q else (1, 30, 365, 730)):
                yield {"kind": "extend", "name": name, "ext": ext, "end": end}
    # an end date between the last season's maturity and its latest harvest date (maturity + 30 days)
    for name in (["Maize", "Wheat"] if q else [n for n in allnames if not n.endswith("GDD")][::3]):
        Lc = A.crop_length_days({"name": name, "scale": None, "kw": {}})
        for after in (0, 1, 10, 29, 30):
            end = A._d("2002/05/01") + dt.timedelta(days=Lc + after)
            for ext in ((1, 365) if q else (1, 30, 365)):
                yield {"kind": "extend", "name": name, "ext": ext, "end": A._f(end)}
    # very long extensions (46 further years; the shorter run is under, the longer over 2^14 days): anything sized or typed by the length
    # of the window
    for name in (["Maize"] if q else ["Maize", "Wheat", "PotatoGDD"]):
        yield {"kind": "extend", "name": name, "ext": 16800}
    # a CO2 record that is not annual over the simulated years (as the bundled record after 2010, or a user table): the concentration of a
    # completed season must not depend on how far the run goes on (two completed seasons, extension across a table node)
    for name in (["Wheat", "Soybean", "Potato", "Cotton"] if q else [n for n in allnames if not n.endswith("GDD")][::2]):
        for ext in ((730,) if q else (365, 730, 1100)):
            yield {"kind": "extend", "name": name, "ext": ext, "end": "2003/04/20", "co2": {"table": [[1990, 340.0], [2001, 370.0], [2005, 450.0], [2012, 600.0]]}}
    # thermal-time crops whose seasons differ in length by more than the 30-day harvest margin (a cool year between warm ones): the
    # derived latest harvest date of a completed season must not depend on seasons that are added later
    for name in (["MaizeGDD", "WheatGDD"] if q else [n for n in allnames if n.endswith("GDD")][::2]):
        for ext in (365, 730):
            yield {"kind": "extend", "name": name, "ext": ext, "end": "2002/12/30", "word": "warm", "blocks": [[365, 730, "WL"]]}
    # a thermal crop whose LAST season is warmer (matures sooner) than its first, with the end date a few days after that last maturity:
    # nothing of the first season's calendar may survive into the last one
    for name in (["MaizeGDD"] if q else ["MaizeGDD", "SorghumGDD", "TomatoGDD"]):
        for k in (1, 2, 4, 8):
            yield {"kind": "extend", "name": name, "ext": 500, "word": "coolnights", "blocks": [[365, 800, "hot"]], "end_after_last_maturity": k}
    # ... also with time series other than weather that reach beyond the original end date (water-table observations, dated schedule)
    for name in (["Maize", "Wheat", "PotatoGDD"] if q else allnames[::2]):
        for ext in ([365] if q else [30, 365]):
            for gw in ("obs_beyond_v", "obs_beyond_c"):
                yield {"kind": "extend", "name": name, "ext": ext, "gw": gw}
            yield {"kind": "extend", "name": name, "ext": ext, "sched": True}
            # a start before the planting date (pre-season fallow days) with overridden crop parameters
            yield {"kind": "extend", "name": name, "ext": ext, "pre": True, "cropkw": {"Zmin": 0.6}}
            yield {"kind": "extend", "name": name, "ext": ext, "pre": True, "cropkw": {"Aer": 12, "Zmin": 0.2}}
            # the off-season simulated (fallow days before planting and between seasons), start before / on the planting date
            yield {"kind": "extend", "name": name, "ext": ext, "pre": True, "off": True}
            yield {"kind": "extend", "name": name, "ext": ext, "off": True}
            # ... from a window shorter than a year to one longer than a year
            yield {"kind": "extend", "name": name, "ext": 365, "pre": True, "off": True, "end": "2001/12/30"}
            yield {"kind": "extend", "name": name, "ext": 365, "pre": True, "end": "2001/12/30"}


def run(scn):
    res = empty_result()
    wit = res["witness"]

    def hit(k, n=1):
        wit[k] = wit.get(k, 0) + n

    if scn["kind"] == "cut":
        base = scn["spec"]
        tb, ab, mb = run_plain(base, timeout=240)
        if ab:
            res["aborted"] = ab
            return res
        res["states"], res["transitions"] = table_state_keys(tb)
        ex = executed_rows(tb)
        gs = tb["storage"][:, 1]
        for t in scn["cuts"]:
            for sym in scn["tails"]:
                p = copy.deepcopy(base)
                p["weather"]["from"] = [t, sym]
                tp, ap, _ = run_plain(p, timeout=240)
                res["evals"] += 1
                if ap:
                    res["violations"].append(V("perturbed-run-raises", t, {k: ap.get(k) for k in ("exc_type", "exc_origin", "exc_msg")}, "runs", sig=["raise"]))
                    continue
                res["transitions"] += table_state_keys(tp)[1]
                rows = ex[ex < t]
                hit("cut_day_compared")
                if len(rows):
                    d = compare_tables(tb, tp, rows=rows)
                    if d is not None:
                        res["violations"].append(V("rows-before-cut-unchanged", d.get("row"), {"cut": t, "tail": sym, "first_difference": d}, "bitwise equal rows with index < t",
                                                   sig=["cut", d.get("table"), d.get("col")]))
                        continue
                # summary rows of seasons harvested before t
                for r in tb["final"]:
                    if r[3] < t and r not in tp["final"]:
                        if not any(repr(r) == repr(r2) for r2 in tp["final"]):
                            res["violations"].append(V("summary-before-cut-unchanged", int(r[3]), {"cut": t, "tail": sym, "row": r}, "same summary row", sig=["cut-summary"]))
                if t < len(gs) and gs[t]:
                    hit("cut_in_season")
                if compare_tables(tb, tp) is not None:
                    hit("cut_changes_future")
        return res

    if scn["kind"] == "extra":
        word = "hot"
        spec = A.catalogue_spec(scn["name"], word=word, irr="smt", iwc="Pct50")
        tb, ab, mb = run_plain(spec, timeout=240)
        p = copy.deepcopy(spec)
        p["weather"]["lead"] = scn["lead"]
        p["weather"]["trail"] = scn["trail"]
        p["weather"].update(scn.get("irregular") or {})
        tp, ap, _ = run_plain(p, timeout=240)
        res["evals"] = 1
        if ab or ap:
            if bool(ab) != bool(ap) or (ab and (ab.get("exc_type"), ab.get("exc_origin")) != (ap.get("exc_type"), ap.get("exc_origin"))):
                res["violations"].append(V("out-of-window-records-change-outcome", None, {"base": ab, "with_extra_rows": ap}, "same outcome", sig=["extra-raise"]))
            res["aborted"] = ab or ap
            return res
        res["states"], res["transitions"] = table_state_keys(tb)
        d = compare_all(tb, tp)
        if d is not None:
            res["violations"].append(V("out-of-window-records-have-no-effect", d.get("row"), {"lead": scn["lead"], "trail": scn["trail"], "first_difference": d}, "bitwise equal", crop=scn["name"],
                                       sig=["extra", d.get("table"), d.get("col")]))
        hit("extra_rows_pair")
        if mb._param_struct.Seasonal_Crop_List[0].CalendarType == 2:
            hit("thermal_crop_pair")
        return res

    if scn["kind"] == "extend":
        spec = A.catalogue_spec(scn["name"], word=scn.get("word", "hot"), irr="smt", iwc="Pct50", dz="deep30" if scn.get("gw") else "d12",
                                start="2001/04/11" if scn.get("pre") else "2001/05/01", cropkw=scn.get("cropkw"), off=bool(scn.get("off")), co2=scn.get("co2"), **({"end": scn["end"]} if scn.get("end") else {}))
        if scn.get("blocks"):
            spec["weather"]["blocks"] = scn["blocks"]
            hit("seasons_of_unequal_thermal_length")
        if scn.get("end_after_last_maturity") is not None:
            # end date = k days after the day the SECOND season reaches its thermal maturity (independent degree-day model)
            from aquacrop.entities.crops.crop_params import crop_params
            from ..refmodels import ref_gdd

            cp = crop_params[scn["name"]]
            spec["end"] = "2003/04/20"
            wdf = S.make_weather(spec).set_index("Date")
            d0, cum, L2 = dt.datetime(2002, 5, 1), 0.0, 0
            while cum <= float(cp["Maturity"]):
                rec = wdf.loc[d0 + dt.timedelta(days=L2)]
                cum += ref_gdd(int(cp["GDDmethod"]), float(cp["Tupp"]), float(cp["Tbase"]), float(rec["MaxTemp"]), float(rec["MinTemp"]))
                L2 += 1
            spec["end"] = A._f(d0 + dt.timedelta(days=L2 + int(scn["end_after_last_maturity"])))
            hit("end_just_after_a_short_last_thermal_season")
        if scn.get("off"):
            hit("extension_with_off_season")
        if scn.get("gw"):
            # observations: at the start, and 400 / 600 days later (beyond the original end date, inside / beyond the extension)
            meth = "Variable" if scn["gw"].endswith("_v") else "Constant"
            spec["gw"] = A.resolve_gw({"method": meth, "series": [[0, 2.4], [400, 1.0], [600, 1.8]]}, spec["start"])
        if scn.get("sched"):
            sd = A._d(spec["start"])
            spec["irr"] = {"method": 3, "kw": {"MaxIrr": 40}, "schedule": [[A._f(sd + dt.timedelta(days=k)), 20.0] for k in (-300, -250, -45, -30, 5, 30, 60, 380, 420, 700)]}
        tb, ab, mb = run_plain(spec, timeout=240)
        p = copy.deepcopy(spec)
        p["end"] = A._f(A._d(spec["end"]) + dt.timedelta(days=scn["ext"]))
        tp, ap, mp_ = run_plain(p, timeout=300)
        res["evals"] = 1
        if ab or ap:
            res["aborted"] = ab or ap
            from .c16 import documented

            if ap and not ab and documented(ap):
                # the extension schedules a further season that cannot mature inside the window: a documented rejection
                res["notes"].append("extended window rejected with a documented error (further season cannot mature)")
            elif ap and not ab:
                res["violations"].append(V("extended-run-raises", None, {k: ap.get(k) for k in ("exc_type", "exc_origin", "exc_msg")}, "runs like the base", crop=scn["name"], ext=scn["ext"],
                                           exc_type=ap.get("exc_type"), exc_origin=ap.get("exc_origin"), sig=["extend-raise", ap.get("exc_origin")]))
            return res
        res["states"], res["transitions"] = table_state_keys(tb)
        hit("end_extension_pair")
        if len(tp["final"]) > len(tb["final"]):
            hit("extension_adds_season")
        # seasons that MUST be complete in the shorter run, derived from the configuration alone (calendar-day crops: a season sown on the
        # planting date inside the window lasts at most MaturityCD days and is harvested at the latest 30 days after that)
        if not scn["name"].endswith("GDD") and not (scn.get("cropkw") or {}).get("SwitchGDD") and not ab:
            L = A.crop_length_days(spec["crop"])
            s0, e0 = A._d(spec["start"]), A._d(spec["end"])
            mm, dd = (int(x) for x in spec["crop"]["planting"].split("/"))
            expected = [p0 for p0 in (dt.datetime(y, mm, dd) for y in range(s0.year, e0.year + 1)) if p0 >= s0 and p0 + dt.timedelta(days=L) <= e0]   # matured inside the window (all L in-season days simulated)
            for p0 in expected:
                r0 = (p0 - s0).days
                hit("season_expected_from_the_configuration")
                if r0 >= len(tb["storage"]) or tb["storage"][r0, 1] != 1:
                    res["violations"].append(V("completed-season-present-in-the-shorter-run", r0, {"planting": str(p0.date()), "end": spec["end"], "growing_season_flag_on_the_planting_day": float(tb["storage"][r0, 1]) if r0 < len(tb["storage"]) else None,
                                                                                                   "summary_rows": len(tb["final"])}, "a season sown on every planting date whose latest harvest date lies inside the window", crop=scn["name"], sig=["extend-missing-season"]))
                    return res
                d = compare_tables(tb, tp, rows=np.arange(r0, r0 + L))
                if d is not None:
                    res["violations"].append(V("completed-season-unchanged-by-extension", d.get("row"), {"ext": scn["ext"], "planting": str(p0.date()), "first_difference": d}, "bitwise equal rows", crop=scn["name"],
                                               sig=["extend", d.get("table"), d.get("col")]))
                    return res
            if len(tb["final"]) < len(expected):
                res["violations"].append(V("completed-season-present-in-the-shorter-run", None, {"summary_rows": len(tb["final"]), "seasons_complete_by_configuration": [str(x.date()) for x in expected]}, "one summary row per completed season",
                                           crop=scn["name"], sig=["extend-missing-summary"]))
                return res
        ex = executed_rows(tb)
        season_col = tb["flux"][:, FX["season_counter"]]
        for r, idx in zip(tb["final"], tb["final_index"]):
            rows = ex[(season_col[ex] == idx) & (tb["storage"][ex, 1] == 1)]
            d = compare_tables(tb, tp, rows=rows) if len(rows) else None
            if d is not None:
                res["violations"].append(V("completed-season-unchanged-by-extension", d.get("row"), {"ext": scn["ext"], "season": idx, "first_difference": d}, "bitwise equal rows", crop=scn["name"],
                                           sig=["extend", d.get("table"), d.get("col")]))
                break
            if not any(repr(r) == repr(r2) for r2 in tp["final"]):
                res["violations"].append(V("completed-season-summary-unchanged-by-extension", int(r[3]), {"ext": scn["ext"], "base_row": r, "extended": tp["final"][:2]}, "same summary row", crop=scn["name"],
                                           sig=["extend-summary"]))
                break
        return res
    raise ValueError(scn["kind"])


def describe(tier):
    return {
        "rule": "calendar-day crops (catalogue crops scaled x0.15" + ("" if tier == "quick" else "; Wheat/Maize/Potato at full length, every 5th day") + ") x configurations {rainfed, threshold, net"
                + ("" if tier == "quick" else ", groundwater, bunds") + "} x EVERY" + (" third" if tier == "quick" else "") + " cut day t of both seasons x a different weather word from t onwards {storm, heat"
                + ("" if tier == "quick" else ", cold, drought") + "}: rows with index < t of all three daily tables and summary rows of seasons harvested before t must be bitwise equal; all 37 crops with "
                "400/4000 wildly different weather records before and/or after the window (also with leading rows dropped without re-indexing, a gap of missing days and a duplicated row outside the window); all built-in crops with the end date extended by {1" + ("" if tier == "quick" else ",30") + ",365" + ("" if tier == "quick" else ",730") + "} days "
                "(completed seasons' in-season rows and summary rows unchanged), also with water-table observations and a dated irrigation schedule that reach beyond the original end date.",
        "bound": "every cut day (quick: every 3rd) of a 2-season window; extra-row and extension menus complete",
        "exhaustive": True,
        "witnesses": WITNESSES,
        "assumptions": ["thermal-time crops are excluded from the cut-day clause by the statement itself", "bitwise comparison of raw float bytes"],
    }
