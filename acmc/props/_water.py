"""Scenario sets shared by the water properties C01-C04 (DESIGN 3, C01-C04)."""
import copy

from .. import alphabets as A
from .. import spec as S
from ..driver import execute
from ..runner import result_from_ctx


def config_scenarios(bases, menus, d):
    seen = set()
    for bi, base in enumerate(bases):
        for c in A.within(base, menus, d):
            key = tuple(sorted((k, str(v)) for k, v in c.items()))
            if key in seen:
                continue
            seen.add(key)
            yield {"kind": "config", "base": bi, "config": c}


def weather_scenarios(bases, stride, symbols=("S", "M", "D", "C"), pairs=False):
    for bi, base in enumerate(bases):
        spec = A.to_spec(base)
        crop = spec["crop"]
        L = A.crop_length_days(crop)
        w = A.WINDOWS[base["win"]]
        if base.get("off"):
            n = (S.parse_date(spec["end"]) - S.parse_date(spec["start"])).days + 1
            positions = list(range(0, min(n, w["pre"] + L + 25)))
        else:
            positions = A.executed_positions(spec, L, w["seasons"], w["pre"])
        positions = positions[::stride]
        for pos in positions:
            for sym in symbols:
                c = dict(base)
                c["dev"] = [[pos, sym]]
                yield {"kind": "config", "base": bi, "config": c}
        if pairs:
            grid = positions[:: max(1, len(positions) // 8)]
            for i, p1 in enumerate(grid):
                for p2 in grid[i + 1:]:
                    for s1 in ("S", "D"):
                        for s2 in ("S", "C"):
                            c = dict(base)
                            c["dev"] = [[p1, s1], [p2, s2]]
                            yield {"kind": "config", "base": bi, "config": c}


FULL_LENGTH = [
    dict(crop="Maize", planting="05/01", wfile="champion_climate.txt", start="1982/05/01", end="1983/10/30", soil="SandyLoam"),
    dict(crop="Wheat", planting="10/01", wfile="tunis_climate.txt", start="1979/10/01", end="1981/07/30", soil="ClayLoam"),
    dict(crop="Potato", planting="04/25", wfile="brussels_climate.txt", start="1990/04/25", end="1990/10/30", soil="Loam"),
    dict(crop="Cotton", planting="05/01", wfile="champion_climate.txt", start="1983/04/20", end="1983/12/30", soil="Clay"),
]


def full_length_scenarios(variants):
    for fl in FULL_LENGTH:
        for v in variants:
            spec = S.base_spec(
                crop={"name": fl["crop"], "planting": fl["planting"], "harvest": None, "scale": None, "kw": {}},
                soil={"type": fl["soil"], "dz": None, "kw": {}},
                start=fl["start"],
                end=fl["end"],
                weather={"kind": "file", "name": fl["wfile"]},
            )
            spec["iwc"] = S.iwc_for(spec["soil"], v.get("iwc", "FC"))
            spec["irr"] = copy.deepcopy(A.IRR[v.get("irr", "none")])
            if spec["irr"] and isinstance(spec["irr"].get("schedule"), str):
                spec["irr"] = A.IRR["smt"]
            spec["field"] = copy.deepcopy(A.FIELD[v.get("field", "none")])
            spec["gw"] = A.resolve_gw(A.GW[v.get("gw", "none")], fl["start"])
            spec["off_season"] = bool(v.get("off", False))
            yield {"kind": "spec", "spec": spec, "label": {**fl, **v}}


FULL_VARIANTS = [
    {},
    {"irr": "smt", "iwc": "WP"},
    {"irr": "net80", "iwc": "WP"},
    {"field": "bunds200", "iwc": "SAT", "irr": "const8e70"},
    {"gw": "1.5", "off": True},
    {"field": "mulch", "irr": "int7e40", "off": True},
]


def spec_of(scn):
    if scn["kind"] == "config":
        return A.to_spec(scn["config"])
    return scn["spec"]


def history_scenarios(bases=None):
    """The same MODEL OBJECT run a second time after the user gave it another weather table through the public setter (rainfall
    scenarios in a loop): the second run is the monitored one."""
    bases = bases or A.WATER_BASES
    for bi in (0, 2, 4, 8):
        base = bases[bi]
        for first in ("dry", "wet", "mix"):
            if first == base.get("word", "normal"):
                continue
            yield {"kind": "config", "base": bi, "config": dict(base), "history": {"kind": "rerun_new_weather", "first_word": first}}


def edited_object_scenarios(bases=None):
    """The user's IrrigationManagement / FieldMngt object initialised by a first model, then edited through a public attribute and given
    to a second model over the same period (trying several efficiencies / bund heights in a loop): the second run is the monitored one
    and must follow the EDITED setting."""
    bases = bases or A.WATER_BASES
    for bi, first, edit in ((2, {"field": "bunds200"}, None), (3, {"irr": "const40e90"}, None), (8, {"irr": "sched_e90"}, None)):
        if bi < len(bases):
            yield {"kind": "config", "base": bi, "config": dict(bases[bi]), "history": {"kind": "edited_objects", "first": first}}


def irregular_record_scenarios(bases=None):
    """The user's weather record is longer than the simulation and NOT one row per day before the window (a missing month, a
    duplicated day, rows dropped without re-indexing): the simulated days must still get the record carrying their date."""
    bases = bases or A.WATER_BASES
    for bi in (0, 3, 8):
        for extra in ({"lead": 400, "drop_lead_rows": [100, 131]}, {"lead": 400, "dup_lead_row": 37}, {"lead": 400, "keep_labels_from": 150}, {"lead": 120, "trail": 60, "drop_lead_rows": [5, 6]},
                      {"lead": 400, "index_style": "concat"}, {"lead": 120, "trail": 500, "index_style": "yearly"}):
            yield {"kind": "config", "base": bi, "config": dict(bases[bi]), "weather_extra": extra}


def run_with(scn, monitor_cls, pid):
    spec = spec_of(scn)
    if scn.get("weather_extra"):
        spec = copy.deepcopy(spec)
        spec["weather"].update(scn["weather_extra"])
    model = None
    entities = None
    if scn.get("history") and scn["history"]["kind"] == "edited_objects":
        from ..driver import watchdog
        first = copy.deepcopy(scn["config"])
        first.update(scn["history"]["first"])
        spec1 = A.to_spec(first)
        try:
            with watchdog(90):
                ent1 = S.make_entities(spec1)
                m1 = S.make_model(spec1, ent1)
                m1._initialize()
                entities = S.make_entities(spec)
                for key in ("irrigation_management", "field_management"):
                    old, new = ent1.get(key), entities.get(key)
                    if old is not None and new is not None and type(old) is type(new):
                        # the user's edit: every public attribute of the first object is overwritten with the new setting
                        for k, v in vars(new).items():
                            if not k.startswith("_"):
                                setattr(old, k, v)
                        entities[key] = old
        except BaseException as e:  # noqa: BLE001
            if isinstance(e, (KeyboardInterrupt, SystemExit)):
                raise
            entities = None
        ctx = execute(spec, [monitor_cls()], pid=pid, entities=entities)
        if entities is not None:
            ctx.hit("edited_object_used_by_an_earlier_model")
        facts = scenario_facts(spec, scn)
        for v in ctx.violations:
            for k, val in facts.items():
                v["facts"].setdefault(k, val)
            v["facts"]["sig"] = [v["clause"]]
        return result_from_ctx(ctx)
    if scn.get("history"):
        from ..driver import watchdog
        first = copy.deepcopy(scn["config"])
        first["word"] = scn["history"]["first_word"]
        first.pop("dev", None)
        spec1 = A.to_spec(first)
        try:
            with watchdog(90):
                model = S.make_model(spec1)
                model.run_model(till_termination=True)
                model.weather_df = S.make_weather(spec)      # the public setter
        except BaseException as e:  # noqa: BLE001
            if isinstance(e, (KeyboardInterrupt, SystemExit)):
                raise
            model = None
    ctx = execute(spec, [monitor_cls()], pid=pid, model=model)
    if model is not None:
        ctx.hit("second_run_of_the_same_model_with_new_weather")
    facts = scenario_facts(spec, scn)
    for v in ctx.violations:
        for k, val in facts.items():
            v["facts"].setdefault(k, val)
        v["facts"]["sig"] = [v["clause"]]
    return result_from_ctx(ctx)


def scenario_facts(spec, scn=None):
    f = {
        "crop": spec["crop"]["name"],
        "soil": spec["soil"]["type"],
        "irr_method": (spec.get("irr") or {}).get("method", 0),
        "off_season": bool(spec.get("off_season")),
        "gw": spec.get("gw") is not None,
    }
    return f


def water_scenarios(tier, bases=None, menus=None, full=True):
    bases = bases or A.WATER_BASES
    menus = menus or A.WATER_MENUS
    yield from history_scenarios(bases)
    yield from edited_object_scenarios(bases)
    yield from irregular_record_scenarios(bases)
    if tier == "quick":
        yield from config_scenarios(bases, menus, 1)
        yield from weather_scenarios(bases, stride=4)
        if full is not None:
            yield from full_length_scenarios(FULL_VARIANTS)   # recorded climates at full length (gradual regimes the words lack)
    else:
        yield from config_scenarios(bases, menus, 2)
        yield from weather_scenarios(bases, stride=1, pairs=True, symbols=("S", "M", "D", "C", "Z", "T"))
        if full:
            yield from full_length_scenarios(FULL_VARIANTS)


def shrink_config(scn):
    """Candidates: move one deviating dimension back to the base value / drop one weather deviation."""
    if scn["kind"] != "config":
        return
    base = A.WATER_BASES[scn["base"]] if scn.get("base") is not None and scn["base"] < len(A.WATER_BASES) else None
    c = scn["config"]
    for i in range(len(c.get("dev") or [])):
        c2 = copy.deepcopy(c)
        c2["dev"].pop(i)
        yield {**scn, "config": c2}
    if c.get("win") == "w2":
        c2 = copy.deepcopy(c)
        c2["win"] = "w1"
        yield {**scn, "config": c2}
    if base:
        for k, v in c.items():
            if k in base and base[k] != v:
                c2 = copy.deepcopy(c)
                c2[k] = base[k]
                yield {**scn, "config": c2}
