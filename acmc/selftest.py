"""setup_cmd: verify the interpreter can import aquacrop from /repo and that one scenario replays deterministically."""
import sys


def main():
    from . import ensure_repo_on_path, REPO

    ensure_repo_on_path()
    import aquacrop

    from . import alphabets as A
    from .driver import execute, tables, tables_digest
    from .monitors.water import C01Ledger

    spec = A.to_spec(A.WATER_BASES[0])
    d = []
    for _ in range(2):
        ctx = execute(spec, [C01Ledger()])
        if ctx.aborted:
            print("selftest: execution aborted:", ctx.aborted)
            return 2
        d.append((tables_digest(tables(ctx.model)), ctx.transitions, len(ctx.state_keys)))
    if d[0] != d[1]:
        print("selftest: nondeterministic replay", d)
        return 2
    print(f"selftest ok: aquacrop from {aquacrop.__file__}; {d[0][1]} transitions, {d[0][2]} states, digest {d[0][0][:12]} reproduced")
    return 0


if __name__ == "__main__":
    sys.exit(main())
