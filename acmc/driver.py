"""Stepping driver: one *execution* of the real model, one real transition at a time, with monitors.

Nothing here abstracts the model: `step()` calls AquaCropModel.run_model(num_steps=1, initialize_model=False),
i.e. the real `_perform_timestep`.  Observation is by reading model attributes and (optionally) by *taps*:
pass-through wrappers bound in the namespace of `aquacrop.timestep.run_single_timestep`.
"""
import hashlib
import inspect
import signal
import struct
import sys
import time
import traceback

import numpy as np
import pandas as pd

from . import ensure_repo_on_path, REPO
from . import spec as S


class Timeout(Exception):
    pass


class watchdog:
    """SIGALRM wall-clock watchdog around a block (main thread of the worker process only)."""

    def __init__(self, seconds):
        self.seconds = int(seconds)

    def _fire(self, signum, frame):
        raise Timeout(f"watchdog: no result after {self.seconds}s")

    def __enter__(self):
        self.old = signal.signal(signal.SIGALRM, self._fire)
        signal.alarm(self.seconds)
        return self

    def __exit__(self, *a):
        signal.alarm(0)
        signal.signal(signal.SIGALRM, self.old)
        return False


# --------------------------------------------------------------------------------------------
# exception description
# --------------------------------------------------------------------------------------------
def describe_exception(e):
    tb = traceback.extract_tb(e.__traceback__)
    origin = None
    chain = []
    for fr in tb:
        fn = fr.filename
        if "/aquacrop/" in fn:
            short = fn.split("/aquacrop/", 1)[1]
            chain.append(f"{short}:{fr.name}")
            origin = f"{short}:{fr.name}"
            origin_line = (fr.line or "").strip()
    d = {
        "exc_type": type(e).__name__,
        "exc_msg": str(e)[:300],
        "exc_origin": origin or "?",
        "exc_chain": chain[-6:],
    }
    if origin:
        d["exc_line"] = origin_line[:200]
    return d


# --------------------------------------------------------------------------------------------
# taps (pass-through wrappers in the time-step module namespace)
# --------------------------------------------------------------------------------------------
_TAP_STATE = {"installed": False, "sinks": [], "orig": {}, "sigs": {}, "unbindable": set()}
TAPPABLE = (
    "pre_irrigation irrigation capillary_rise germination growth_stage canopy_cover transpiration "
    "groundwater_inflow harvest_index growing_degree_day drainage root_zone_water rainfall_partition "
    "check_groundwater_table soil_evaporation root_development infiltration HIref_current_day "
    "biomass_accumulation"
).split()


def install_taps():
    st = _TAP_STATE
    if st["installed"]:
        return
    ensure_repo_on_path()
    import aquacrop.timestep.run_single_timestep as mod

    for name in TAPPABLE:
        fn = getattr(mod, name, None)
        if fn is None or not callable(fn):
            continue
        st["orig"][name] = fn
        try:
            st["sigs"][name] = inspect.signature(fn)
        except (TypeError, ValueError):
            st["sigs"][name] = None

        def make(name, fn):
            def tap(*args, **kwargs):
                sinks = st["sinks"]
                if not sinks:
                    return fn(*args, **kwargs)
                bound = None
                interested = [s for s in sinks if name in s.taps]
                if not interested:
                    return fn(*args, **kwargs)
                sig = st["sigs"].get(name)
                if sig is not None:
                    try:
                        bound = sig.bind(*args, **kwargs).arguments
                    except TypeError:
                        st["unbindable"].add(name)
                for s in interested:
                    s.before(name, bound, args, kwargs)
                ret = fn(*args, **kwargs)
                for s in interested:
                    r2 = s.after(name, bound, ret)
                    if r2 is not None:
                        ret = r2
                return ret

            tap.__name__ = name
            tap.__wrapped__ = fn
            return tap

        setattr(mod, name, make(name, fn))
    st["installed"] = True


class Sink:
    """Base class of objects that listen to taps."""

    taps = ()

    def before(self, name, bound, args, kwargs):
        pass

    def after(self, name, bound, ret):
        return None


class sinks_active:
    def __init__(self, sinks):
        self.sinks = [s for s in sinks if s.taps]

    def __enter__(self):
        if self.sinks:
            install_taps()
            _TAP_STATE["sinks"].extend(self.sinks)

    def __exit__(self, *a):
        for s in self.sinks:
            try:
                _TAP_STATE["sinks"].remove(s)
            except ValueError:
                pass
        return False


# --------------------------------------------------------------------------------------------
# canonical state
# --------------------------------------------------------------------------------------------
def _canon_value(h, v):
    if isinstance(v, np.ndarray):
        h.update(b"A")
        h.update(str(v.dtype).encode())
        h.update(np.ascontiguousarray(v).tobytes())
    elif isinstance(v, (bool, np.bool_)):
        h.update(b"B1" if v else b"B0")
    elif isinstance(v, (int, np.integer)):
        h.update(b"F" + struct.pack("<d", float(v)))
    elif isinstance(v, (float, np.floating)):
        h.update(b"F" + struct.pack("<d", float(v)))
    elif v is None:
        h.update(b"N")
    elif isinstance(v, (pd.Timestamp, np.datetime64)):
        h.update(b"T" + str(pd.Timestamp(v).value).encode())
    elif isinstance(v, str):
        h.update(b"S" + v.encode())
    elif isinstance(v, (list, tuple)):
        h.update(b"L")
        for x in v:
            _canon_value(h, x)
    elif isinstance(v, pd.DatetimeIndex):
        h.update(b"I" + v.values.tobytes())
    elif isinstance(v, pd.Series):
        h.update(b"s" + np.ascontiguousarray(v.values.astype(float)).tobytes())
    elif isinstance(v, pd.DataFrame):
        h.update(b"D")
        for c in v.columns:
            h.update(str(c).encode())
            try:
                h.update(np.ascontiguousarray(v[c].values.astype(float)).tobytes())
            except (TypeError, ValueError):
                h.update(repr(list(v[c].values)).encode())
    elif isinstance(v, dict):
        h.update(b"M")
        for k in sorted(v, key=str):
            h.update(str(k).encode())
            _canon_value(h, v[k])
    elif hasattr(v, "__dict__") and not isinstance(v, type) and not callable(v):
        h.update(b"J" + type(v).__name__.encode())
        hash_obj_dict(h, v)
    else:
        h.update(b"O" + repr(v).encode())


def hash_obj_dict(h, obj, skip=()):
    d = obj.__dict__ if hasattr(obj, "__dict__") else obj
    for k in sorted(d):
        if k in skip:
            continue
        h.update(k.encode())
        _canon_value(h, d[k])


def canon_cond(cond):
    h = hashlib.sha256()
    hash_obj_dict(h, cond)
    return h


def canon_clock(h, clock):
    for k in (
        "time_step_counter",
        "model_is_finished",
        "season_counter",
        "step_start_time",
        "step_end_time",
        "n_seasons",
        "sim_off_season",
    ):
        h.update(k.encode())
        _canon_value(h, getattr(clock, k))


def canon_state(model, with_outputs=False):
    """SHA-256 over clock + every InitialCondition field (+ per-season crop dicts, CO2 state[, output rows])."""
    h = canon_cond(model._init_cond)
    canon_clock(h, model._clock_struct)
    ps = model._param_struct
    for c in ps.Seasonal_Crop_List:
        hash_obj_dict(h, c)
    hash_obj_dict(h, ps.Fallow_Crop)
    _canon_value(h, ps.CO2.current_concentration)
    if with_outputs:
        o = model._outputs
        for name in ("water_flux", "water_storage", "crop_growth"):
            a = getattr(o, name)
            a = a.values if isinstance(a, pd.DataFrame) else a
            h.update(np.ascontiguousarray(np.nan_to_num(a, nan=-12345.0)).tobytes())
        h.update(repr(o.final_stats.values.tolist()).encode())
    return h.digest()


def light_state_key(model):
    """Cheaper canonical key used to count distinct states (clock + cond)."""
    h = canon_cond(model._init_cond)
    canon_clock(h, model._clock_struct)
    return h.digest()[:8]


# --------------------------------------------------------------------------------------------
# tables
# --------------------------------------------------------------------------------------------
def _arr(a):
    return a.values if isinstance(a, pd.DataFrame) else a


def tables(model):
    o = model._outputs
    fs = o.final_stats
    return {
        "flux": np.array(_arr(o.water_flux), dtype=float),
        "storage": np.array(_arr(o.water_storage), dtype=float),
        "growth": np.array(_arr(o.crop_growth), dtype=float),
        "final": [
            [
                (str(pd.Timestamp(x)) if isinstance(x, (pd.Timestamp, np.datetime64)) else (x if isinstance(x, str) else float(x)))
                for x in row
            ]
            for row in fs.values.tolist()
        ],
        "final_index": [int(i) for i in fs.index.tolist()],
    }


def tables_digest(tb):
    h = hashlib.sha256()
    for k in ("flux", "storage", "growth"):
        a = tb[k]
        h.update(k.encode())
        h.update(str(a.shape).encode())
        h.update(np.ascontiguousarray(a).tobytes())
    h.update(repr(tb["final"]).encode())
    h.update(repr(tb["final_index"]).encode())
    return h.hexdigest()


def bits_equal(a, b):
    a = np.ascontiguousarray(a, dtype=float)
    b = np.ascontiguousarray(b, dtype=float)
    return a.shape == b.shape and a.tobytes() == b.tobytes()


def first_diff(a, b):
    """(row, col, a, b) of the first bitwise difference between two 2-D float arrays, or None."""
    if a.shape != b.shape:
        return ("shape", a.shape, b.shape)
    av = a.view(np.uint64) if a.dtype == np.float64 else a
    bv = b.view(np.uint64) if b.dtype == np.float64 else b
    ne = np.argwhere(av != bv)
    if len(ne) == 0:
        return None
    r, c = (int(x) for x in ne[0])
    return (r, c, float(a[r, c]), float(b[r, c]))


FLUX_COLS = (
    "time_step_counter season_counter dap Wr z_gw surface_storage IrrDay Infl Runoff DeepPerc CR GwIn Es EsPot Tr TrPot"
).split()
GROWTH_COLS = (
    "time_step_counter season_counter dap gdd gdd_cum z_root canopy_cover canopy_cover_ns biomass biomass_ns "
    "harvest_index harvest_index_adj DryYield FreshYield YieldPot"
).split()
FX = {n: i for i, n in enumerate(FLUX_COLS)}
GX = {n: i for i, n in enumerate(GROWTH_COLS)}


# --------------------------------------------------------------------------------------------
# the execution context
# --------------------------------------------------------------------------------------------
class Ctx:
    MAX_V_PER_CLAUSE = 3

    def __init__(self, spec, pid=None):
        self.spec = spec
        self.pid = pid
        self.model = None
        self.violations = []
        self._vcount = {}
        self.witness = {}
        self.transitions = 0
        self.state_keys = set()
        self.steps = []  # executed step indices (time_step_counter of each executed day)
        self.notes = []
        self.evals = 0

    def hit(self, name, n=1):
        self.witness[name] = self.witness.get(name, 0) + n

    def violate(self, clause, step=None, observed=None, expected=None, **facts):
        c = self._vcount.get(clause, 0)
        self._vcount[clause] = c + 1
        if c >= self.MAX_V_PER_CLAUSE:
            return
        self.violations.append(
            {
                "clause": clause,
                "step": None if step is None else int(step),
                "observed": _js(observed),
                "expected": _js(expected),
                "facts": {k: _js(v) for k, v in facts.items()},
            }
        )


def _js(v):
    if isinstance(v, (np.floating,)):
        return float(v)
    if isinstance(v, (np.integer,)):
        return int(v)
    if isinstance(v, (np.bool_,)):
        return bool(v)
    if isinstance(v, np.ndarray):
        return [_js(x) for x in v.tolist()]
    if isinstance(v, (list, tuple)):
        return [_js(x) for x in v]
    if isinstance(v, dict):
        return {str(k): _js(x) for k, x in v.items()}
    if isinstance(v, (pd.Timestamp, np.datetime64)):
        return str(pd.Timestamp(v))
    if isinstance(v, float) and (v != v or v in (float("inf"), float("-inf"))):
        return repr(v)
    return v


class Pre:
    __slots__ = ("t", "season", "date", "th", "pond", "cond", "finished")


class Post:
    __slots__ = ("flux", "storage", "growth", "th_end", "pond_end", "gs", "t", "season", "new_season", "finished")


class Monitor(Sink):
    """Base monitor: invariants evaluated on every state / transition / execution of the real model."""

    def on_init(self, ctx):
        pass

    def on_transition(self, ctx, pre, post):
        pass

    def on_end(self, ctx):
        pass


def snapshot_pre(model):
    p = Pre()
    ck = model._clock_struct
    cond = model._init_cond
    p.t = int(ck.time_step_counter)
    p.season = int(ck.season_counter)
    p.date = ck.step_start_time
    p.th = np.array(cond.th, dtype=float, copy=True)
    p.pond = float(cond.surface_storage)
    p.cond = cond
    p.finished = bool(ck.model_is_finished)
    return p


def snapshot_post(model, pre):
    o = model._outputs
    q = Post()
    t = pre.t
    q.t = t
    q.flux = np.array(_arr(o.water_flux)[t], dtype=float)
    q.storage = np.array(_arr(o.water_storage)[t], dtype=float)
    q.growth = np.array(_arr(o.crop_growth)[t], dtype=float)
    q.th_end = q.storage[3:]
    q.pond_end = float(q.flux[FX["surface_storage"]])
    q.gs = bool(q.storage[1])
    q.season = int(q.flux[FX["season_counter"]])
    ck = model._clock_struct
    q.new_season = int(ck.season_counter) != pre.season
    q.finished = bool(ck.model_is_finished)
    return q


def step(model):
    model.run_model(num_steps=1, initialize_model=False)


def configured_weather(ctx, date):
    """(tmin, tmax, precipitation, et0) the USER's table holds for `date` (by column name), independent of the model's own matrix."""
    cache = getattr(ctx, "_wcfg", None)
    if cache is None:
        df = getattr(ctx, "weather_df_cfg", None)
        if df is None:
            df = S.make_weather(ctx.spec)
        cache = {pd.Timestamp(d): (float(a), float(b), float(c), float(e)) for d, a, b, c, e in
                 zip(df["Date"].values, df["MinTemp"].values, df["MaxTemp"].values, df["Precipitation"].values, df["ReferenceET"].values)}
        ctx._wcfg = cache
    return cache[pd.Timestamp(date)]


def execute(spec, monitors, pid=None, timeout=90, max_steps=None, count_states=True, entities=None, ctx=None, model=None):
    """Build, initialise and step the real model to termination under the monitors.

    Returns the Ctx.  `ctx.aborted` is None or a dict describing the exception / timeout and the phase."""
    ensure_repo_on_path()
    ctx = ctx or Ctx(spec, pid)
    ctx.aborted = None
    ctx.phase = "build"
    t0 = time.time()
    try:
        with watchdog(timeout), sinks_active(monitors):
            if model is None:
                model = S.make_model(spec, entities)
            ctx.model = model
            ctx.phase = "init"
            model._initialize()      # (a model handed in by the caller is re-initialised: the history "same object run again")
            ctx.phase = "monitor-init"
            for m in monitors:
                m.on_init(ctx)
            ctx.phase = "step"
            n = 0
            limit = max_steps if max_steps is not None else int(model._clock_struct.n_steps) + 5
            while not model._clock_struct.model_is_finished:
                if n >= limit:
                    ctx.aborted = {"exc_type": "NoTermination", "exc_msg": f"still running after {n} steps (n_steps={model._clock_struct.n_steps})", "exc_origin": "driver", "phase": "step"}
                    break
                pre = snapshot_pre(model)
                ctx.phase = "step"
                step(model)
                n += 1
                ctx.transitions += 1
                ctx.steps.append(pre.t)
                post = snapshot_post(model, pre)
                if count_states:
                    ctx.state_keys.add(light_state_key(model))
                ctx.phase = "monitor"
                for m in monitors:
                    m.on_transition(ctx, pre, post)
            if ctx.aborted is None:
                ctx.phase = "monitor-end"
                for m in monitors:
                    m.on_end(ctx)
    except Timeout as e:
        ctx.aborted = {"exc_type": "Timeout", "exc_msg": str(e), "exc_origin": "watchdog", "phase": ctx.phase}
    except BaseException as e:  # noqa: BLE001 - assertion errors etc. are data here
        if isinstance(e, (KeyboardInterrupt, SystemExit)):
            raise
        d = describe_exception(e)
        d["phase"] = ctx.phase
        d["step"] = ctx.steps[-1] + 1 if ctx.steps else 0
        ctx.aborted = d
    ctx.wall = time.time() - t0
    return ctx


def run_plain(spec, timeout=90, entities=None, stepwise=False):
    """Run to termination without monitors; returns (tables|None, aborted|None, model)."""
    ensure_repo_on_path()
    model = None
    try:
        with watchdog(timeout):
            model = S.make_model(spec, entities)
            model.run_model(till_termination=True)
        return tables(model), None, model
    except Timeout as e:
        return None, {"exc_type": "Timeout", "exc_msg": str(e), "exc_origin": "watchdog"}, model
    except BaseException as e:  # noqa: BLE001
        if isinstance(e, (KeyboardInterrupt, SystemExit)):
            raise
        return None, describe_exception(e), model
