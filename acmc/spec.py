"""JSON scenario spec  ->  real aquacrop entity objects / AquaCropModel.

A *spec* is a plain dict (JSON-serialisable, hence replayable):

  crop    {"name": str, "planting": "MM/DD", "harvest": null|"MM/DD", "scale": null|float, "kw": {...}}
  soil    {"type": str, "dz": null|[...], "kw": {...}, "layers": null|[[thick, wp, fc, sat, ksat, pen], ...],
           "texture": null|[[thick, sand, clay, om, pen], ...]}
  iwc     {"wc_type","method","depth_layer","value"}
  irr     {"method": int, "kw": {...}, "schedule": null|[["YYYY/MM/DD", depth], ...]}
  field / fallow   null | {FieldMngt kwargs}
  gw      null | {"method": "Constant"|"Variable", "dates": [...], "values": [...]}
  co2     null | {"constant_conc": bool, "current_concentration": float, "table": null|[[year, ppm], ...]}
  start, end   "YYYY/MM/DD";  off_season bool
  weather {"kind":"word","word": name|literal, "dev": [[pos, sym], ...], "from": [pos, sym]|null,
           "lead": int, "trail": int}   |   {"kind":"file","name": "tunis_climate.txt"}
"""
import copy
import datetime as _dt
import functools
import os

import numpy as np
import pandas as pd

from . import REPO

# --------------------------------------------------------------------------------------------
# weather alphabet
# --------------------------------------------------------------------------------------------
#            Tmin  Tmax   P    ET0
SYMBOLS = {
    "N": (12.0, 26.0, 0.0, 5.0),
    "R": (12.0, 24.0, 12.0, 4.0),
    "M": (10.0, 22.0, 45.0, 3.0),
    "S": (15.0, 25.0, 300.0, 3.0),
    "H": (25.0, 46.0, 0.0, 9.0),
    "C": (-6.0, 3.0, 0.0, 1.0),
    "D": (14.0, 34.0, 0.0, 12.0),
    "L": (10.0, 18.0, 0.0, 0.1),
    "W": (17.0, 31.0, 0.0, 6.0),
    "X": (2.0, 48.0, 80.0, 15.0),  # "wildly different" filler for out-of-window rows
    "Z": (10.0, 18.0, 0.0, 0.03),  # reference ET below the 0.1 floor prepare_weather enforces (user-built tables can carry it)
    "T": (36.0, 47.0, 0.0, 10.0),  # tropical night: minimum temperature above every crop's upper temperature
    "K": (3.0, 24.0, 0.0, 4.0),  # cool night below most base temperatures, warm day (the degree-day methods differ here)
    "F": (-12.0, -2.0, 0.0, 0.5),  # frost: maximum temperature below every crop's base temperature
    "Q": (2.0, 17.0, 0.0, 2.0),    # chilly: a few tenths to 2 degree days for most crops (between 0 and a raised GDD_lo)
    "G": (10.0, 22.0, 4.0, 3.0),    # exactly 16 degree days a day for Tbase 0 / Tupp >= 22 (sums that land exactly on a thermal threshold)
    "E": (12.0, 24.0, 4.0, 4.0),     # exactly 10 degree days a day for Tbase 8 (MaizeGDD): sums land exactly on round thermal thresholds
    "P": (14.0, 30.0, 4.0, 8.0),     # a shower smaller than the day's evaporative demand
}
WORDS = {
    "normal": "NNNRNNN",
    "mix": "NNRNNNDNNSNNNNHNNCNNMNN",
    "wet": "MRS",
    "dry": "D",
    "warm": "WWWWWR",
    "showers": "NRNMNRN",
    "hot": "WWHWWDR",
    "coolnights": "WKWWKRWKH", "scorch": "TTTWTTR", "chilly": "NQNNQQNRQ", "steady16": "G", "steady10": "E", "drizzle": "DDDDDDDDP",
}


def parse_date(s):
    return _dt.datetime.strptime(s, "%Y/%m/%d")


def fmt_date(d):
    return d.strftime("%Y/%m/%d")


def word_letters(w, n, offset=0):
    word = WORDS.get(w["word"], w["word"])
    L = len(word)
    letters = [word[(i + offset) % L] for i in range(n)]
    return letters


def make_weather(spec):
    """Return a DataFrame shaped like prepare_weather()'s output (MinTemp MaxTemp Precipitation ReferenceET Date)."""
    w = spec["weather"]
    if w["kind"] == "file":
        return load_station(w["name"]).copy()
    start = parse_date(spec["start"])
    end = parse_date(spec["end"])
    lead = int(w.get("lead", 0))
    trail = int(w.get("trail", 0))
    n = (end - start).days + 1
    # positions are relative to the simulation start (index 0 = first simulated day)
    letters = word_letters(w, n)
    if w.get("annual"):
        # the same record on the same (month, day) of every year: all seasons of a run see identical weather
        word = WORDS.get(w.get("word"), w.get("word"))
        letters = []
        for i in range(n):
            d = start + _dt.timedelta(days=i)
            letters.append(word[(d.month * 31 + d.day) % len(word)])
    for a, b, bw in w.get("blocks", []) or []:
        # positions a..b-1 follow another word (e.g. one cool year between warm ones)
        tail = WORDS.get(bw, bw)
        for i in range(max(0, a), min(n, b)):
            letters[i] = tail[(i - a) % len(tail)]
    frm = w.get("from")
    if frm:
        p0, sym = frm
        tail = WORDS.get(sym, sym)
        for i in range(max(0, p0), n):
            letters[i] = tail[(i - p0) % len(tail)]
    for pos, sym in w.get("dev", []) or []:
        if 0 <= pos < n:
            letters[pos] = sym
    fill = w.get("fill", "X")
    letters = [fill] * lead + letters + [fill] * trail
    arr = np.array([SYMBOLS[c] for c in letters], dtype=float)
    dates = pd.date_range(start - _dt.timedelta(days=lead), periods=len(letters), freq="D")
    df = pd.DataFrame(
        {
            "MinTemp": arr[:, 0],
            "MaxTemp": arr[:, 1],
            "Precipitation": arr[:, 2],
            "ReferenceET": arr[:, 3],
            "Date": dates,
        }
    )
    # optional irregularities of the rows OUTSIDE the window (positions are row numbers of the padded table)
    if w.get("drop_lead_rows"):      # remove leading-pad rows lead_from..lead_to (a gap of missing days before the window)
        a, b = w["drop_lead_rows"]
        df = df.drop(index=range(a, b)).reset_index(drop=True)
        lead -= (b - a)
    if w.get("dup_lead_row") is not None:   # duplicate one leading-pad row
        k = int(w["dup_lead_row"])
        df = pd.concat([df.iloc[: k + 1], df.iloc[k:]], ignore_index=True)
        lead += 1
    if w.get("drop_trail_rows"):
        a, b = w["drop_trail_rows"]          # counted from the first trailing-pad row
        base = lead + n
        df = df.drop(index=range(base + a, base + b)).reset_index(drop=True)
    if w.get("keep_labels_from") is not None:   # drop the first k rows WITHOUT resetting the index (labels start at k)
        k = int(w["keep_labels_from"])
        df = df[df.index >= k]
    if w.get("index_style") == "concat":
        # extra rows concatenated in front of / behind the record WITHOUT ignore_index: the labels restart, in-window rows share labels
        # with rows outside the window
        k = min(max(lead, 1), len(df))
        df.index = list(range(k)) + list(range(len(df) - k))
    elif w.get("index_style") == "yearly":
        df.index = [int(x) - 1 for x in pd.DatetimeIndex(df["Date"].values).dayofyear]   # yearly files concatenated
    return df


@functools.lru_cache(maxsize=None)
def load_station(name):
    from aquacrop.utils import prepare_weather

    return prepare_weather(os.path.join(REPO, "aquacrop", "data", name))


# --------------------------------------------------------------------------------------------
# crops
# --------------------------------------------------------------------------------------------
CD_KEYS = ("EmergenceCD", "MaxRootingCD", "SenescenceCD", "MaturityCD", "HIstartCD", "FloweringCD", "YldFormCD")


def scaled_crop_kwargs(name, f):
    """Calendar-scaled version of a calendar-day catalogue crop: all phase lengths x f, canopy rates / f.

    Ordering constraints between phases are preserved by construction.  Thermal-time crops are not
    scaled (their calendar is a function of the weather)."""
    from aquacrop.entities.crops.crop_params import crop_params

    p = crop_params[name]
    if p["CalendarType"] != 1:
        raise ValueError("only calendar-day crops can be scaled")

    def sc(k, lo=1):
        return max(lo, int(round(float(p[k]) * f)))

    em = sc("EmergenceCD", 1)
    his = max(em + 2, sc("HIstartCD"))
    sen = max(his + 2, sc("SenescenceCD"))
    mat = max(sen + 2, sc("MaturityCD"))
    mroot = min(max(em + 1, sc("MaxRootingCD")), mat)
    yf = min(max(3, sc("YldFormCD")), mat - his)
    yf = max(yf, 2)
    kw = dict(EmergenceCD=em, HIstartCD=his, SenescenceCD=sen, MaturityCD=mat, MaxRootingCD=mroot, YldFormCD=yf)
    if p["CropType"] == 3:
        kw["FloweringCD"] = max(1, min(sc("FloweringCD"), yf))
    kw["CGC_CD"] = float(p["CGC_CD"]) / f
    kw["CDC_CD"] = float(p["CDC_CD"]) / f
    return kw


def make_crop(cs):
    from aquacrop import Crop

    kw = {}
    if cs.get("scale"):
        kw.update(scaled_crop_kwargs(cs["name"], cs["scale"]))
    if cs.get("gddscale"):
        kw.update(scaled_gdd_kwargs(cs["name"], cs["gddscale"]))
    kw.update(cs.get("kw") or {})
    if cs.get("numpy"):
        # the same numbers as numpy scalars (elements of a calibration / parameter array): a valid way to pass them
        kw = {k: (np.int64(v) if isinstance(v, int) and not isinstance(v, bool) else np.float64(v) if isinstance(v, float) else v) for k, v in kw.items()}
    return Crop(cs["name"], planting_date=cs["planting"], harvest_date=cs.get("harvest"), **kw)


# --------------------------------------------------------------------------------------------
# soils
# --------------------------------------------------------------------------------------------
def make_soil(ss):
    from aquacrop import Soil

    kw = dict(ss.get("kw") or {})
    if ss.get("dz") is not None:
        kw["dz"] = list(ss["dz"])
    soil = Soil(ss["type"], **kw)
    if ss["type"] == "custom":
        for lay in ss.get("layers") or []:
            soil.add_layer(*lay)
        for lay in ss.get("texture") or []:
            if len(lay) > 5:
                # a compacted / loosened layer: the public pedotransfer method with a density factor, its values handed to add_layer
                thick, sand, clay, om, pen, df = lay
                wp, fc, sat, ks = soil.calculate_soil_hydraulic_properties(sand / 100, clay / 100, om, df)
                soil.add_layer(thick, wp, fc, sat, ks, pen)
            else:
                soil.add_layer_from_texture(*lay)
    return soil


def soil_nlayers(ss):
    if ss["type"] == "custom":
        return len(ss.get("layers") or []) + len(ss.get("texture") or [])
    if ss["type"] in ("Paddy", "ac_TunisLocal"):
        return 2
    return 1


# --------------------------------------------------------------------------------------------
# other entities
# --------------------------------------------------------------------------------------------
def make_iwc(ws):
    from aquacrop import InitialWaterContent

    if ws is None:
        return InitialWaterContent()
    if ws.get("as_array"):
        # the same request with its lists given as numpy arrays (float64 for numbers): a valid way to pass them
        val = ws.get("value", ["FC"])
        val = np.array(val, dtype=float) if all(isinstance(v, (int, float)) for v in val) else np.array(val)
        return InitialWaterContent(wc_type=ws.get("wc_type", "Prop"), method=ws.get("method", "Layer"),
                                   depth_layer=np.array(ws.get("depth_layer", [1]), dtype=float if ws.get("method") == "Depth" else int), value=val)
    if ws.get("defaults_for_missing"):
        # only the arguments the user wrote: everything else is left to the constructor's own (shared) default values
        kw = {k: (list(ws[k]) if isinstance(ws[k], list) else ws[k]) for k in ("wc_type", "method", "depth_layer", "value") if k in ws}
        return InitialWaterContent(**kw)
    return InitialWaterContent(
        wc_type=ws.get("wc_type", "Prop"),
        method=ws.get("method", "Layer"),
        depth_layer=list(ws.get("depth_layer", [1])),
        value=list(ws.get("value", ["FC"])),
    )


def make_irr(irs):
    from aquacrop import IrrigationManagement

    if irs is None:
        return None
    kw = dict(irs.get("kw") or {})
    if irs.get("default_schedule_after_inplace_fill"):
        # history: the user built a schedule strategy WITHOUT a table and filled its (default) table in place, row by row; a second
        # strategy object built afterwards without a table must still have an empty schedule
        other = IrrigationManagement(irrigation_method=3)
        for d, x in irs["default_schedule_after_inplace_fill"]:
            other.Schedule.loc[len(other.Schedule)] = [pd.Timestamp(d.replace("/", "-")), float(x)]
        return IrrigationManagement(irrigation_method=3, **kw)
    if irs.get("default_smt_after_inplace_edit"):
        # history: another threshold strategy built WITHOUT thresholds was tuned in place (irr.SMT[i] = x) before this one was created
        other = IrrigationManagement(irrigation_method=1)
        for i in range(4):
            other.SMT[i] = float(irs["default_smt_after_inplace_edit"])
        kw.pop("SMT", None)
        return IrrigationManagement(irrigation_method=1, **kw)
    if irs.get("smt_series") and "SMT" in kw:
        # the targets as a pandas Series whose integer labels are a permutation of 0..3 (e.g. the result of sort_values): positions count
        ser = pd.Series([float(x) for x in kw["SMT"]])
        kw["SMT"] = ser.sort_values(ascending=False) if irs["smt_series"] == "permuted" else ser
    if irs.get("schedule") is not None:
        sch = irs["schedule"]
        df = pd.DataFrame(
            {
                "Date": pd.to_datetime([d for d, _ in sch], format="%Y/%m/%d") if sch else pd.to_datetime([]),
                "Depth": [float(x) for _, x in sch],
            }
        )
        style = irs.get("schedule_style")
        if style == "object_ts":
            # the construction shown in the IrrigationManagement docstring: DataFrame([dates, depths]).T -> object-dtype columns
            df = pd.DataFrame([pd.DatetimeIndex(df["Date"]), [x for _, x in sch]]).T
            df.columns = ["Date", "Depth"]
        elif style == "object_str":
            # the same construction from date STRINGS (an object-dtype column of text dates)
            df = pd.DataFrame([[d.replace("/", "-") for d, _ in sch], [x for _, x in sch]]).T
            df.columns = ["Date", "Depth"]
        elif style == "reversed":
            df = df.iloc[::-1].reset_index(drop=True)      # rows listed latest first
        kw["Schedule"] = df
    return IrrigationManagement(irrigation_method=irs["method"], **kw)


def make_field(fs):
    from aquacrop import FieldMngt

    if fs is None:
        return None
    fs = dict(fs)
    for k, v in list(fs.items()):
        if v == "np_false":       # a switch read from a numpy / pandas table: numpy.False_ is falsy but is not the singleton False
            fs[k] = np.False_
        elif v == "np_true":
            fs[k] = np.True_
    return FieldMngt(**fs)


def make_gw(gs):
    from aquacrop import GroundWater

    if gs is None:
        return None
    return GroundWater(
        water_table="Y",
        method=gs.get("method", "Constant"),
        dates=_gw_dates(gs),
        values=list(gs["values"]),
    )


def _gw_dates(gs):
    """The observation dates in the notation the configuration asks for (the canonical 'YYYY/MM/DD' strings stay in the spec)."""
    style = gs.get("date_style")
    out = []
    for d in gs["dates"]:
        t = parse_date(d)
        if style == "unpadded":
            out.append(f"{t.year}/{t.month}/{t.day}")       # 2001/5/9: accepted by pandas and strptime alike
        elif style == "dashes":
            out.append(t.strftime("%Y-%m-%d"))
        elif style == "timestamp":
            out.append(pd.Timestamp(t))
        else:
            out.append(d)
    return out


def make_co2(cs):
    from aquacrop import CO2

    if cs is None:
        return None
    kw = {}
    if "constant_conc" in cs:
        cc = cs["constant_conc"]
        # the switch in the spellings a user may pass: Python bool, numpy.True_ / numpy.False_ (read from a table), 1 / 0
        kw["constant_conc"] = np.True_ if cc == "np_true" else np.False_ if cc == "np_false" else (cc if isinstance(cc, int) and not isinstance(cc, bool) else bool(cc))
    if "current_concentration" in cs:
        kw["current_concentration"] = float(cs["current_concentration"])
    if "ref_concentration" in cs:
        kw["ref_concentration"] = float(cs["ref_concentration"])
    if cs.get("table") is not None:
        kw["co2_data"] = pd.DataFrame({"year": [y for y, _ in cs["table"]], "ppm": [float(p) for _, p in cs["table"]]})
    return CO2(**kw)


def _np(v):
    """The same value as a numpy scalar / array (what a user gets when the number comes out of an array or a DataFrame)."""
    if isinstance(v, bool) or v is None or isinstance(v, str):
        return v
    if isinstance(v, int):
        return np.int64(v)
    if isinstance(v, float):
        return np.float64(v)
    if isinstance(v, list):
        return [_np(x) for x in v]
    if isinstance(v, dict):
        return {k: _np(x) for k, x in v.items()}
    return v


def numpyfied(spec):
    """A copy of the spec whose numeric SETTINGS are numpy scalars (dates, names, schedules and layer tables stay as they are)."""
    s = copy.deepcopy(spec)
    s["crop"]["numpy"] = True
    for key in ("irr", "field", "fallow"):
        if s.get(key):
            if key == "irr":
                s[key]["kw"] = _np(s[key].get("kw") or {})
            else:
                s[key] = _np(s[key])
    if s.get("gw"):
        s["gw"]["values"] = _np(s["gw"]["values"])
    if s.get("iwc"):
        s["iwc"]["value"] = _np(s["iwc"]["value"])
        s["iwc"]["depth_layer"] = _np(s["iwc"]["depth_layer"])
    if s.get("soil"):
        s["soil"]["kw"] = _np(s["soil"].get("kw") or {})
    if s.get("co2") and "current_concentration" in s["co2"]:
        s["co2"]["current_concentration"] = float(s["co2"]["current_concentration"])
    s["numpy_inputs"] = True
    return s


def make_entities(spec):
    """Fresh entity objects for a spec (dict keyed like the AquaCropModel constructor)."""
    if spec.get("numpy_inputs") and not spec.get("_numpyfied"):
        spec = numpyfied(spec)
        spec["_numpyfied"] = True
    ent = dict(
        weather_df=make_weather(spec),
        soil=make_soil(spec["soil"]),
        crop=make_crop(spec["crop"]),
        initial_water_content=make_iwc(spec.get("iwc")),
        irrigation_management=make_irr(spec.get("irr")),
        field_management=make_field(spec.get("field")),
        fallow_field_management=make_field(spec.get("fallow")),
        groundwater=make_gw(spec.get("gw")),
        co2_concentration=make_co2(spec.get("co2")),
    )
    return ent


def make_model(spec, entities=None):
    from aquacrop import AquaCropModel

    ent = entities if entities is not None else make_entities(spec)
    return AquaCropModel(
        sim_start_time=spec["start"],
        sim_end_time=spec["end"],
        off_season=bool(spec.get("off_season", False)),
        **ent,
    )


# --------------------------------------------------------------------------------------------
# spec helpers
# --------------------------------------------------------------------------------------------
def base_spec(**over):
    s = {
        "crop": {"name": "Maize", "planting": "05/01", "harvest": None, "scale": 0.2, "kw": {}},
        "soil": {"type": "SandyLoam", "dz": None, "kw": {}},
        "iwc": {"wc_type": "Prop", "method": "Layer", "depth_layer": [1], "value": ["FC"]},
        "irr": None,
        "field": None,
        "fallow": None,
        "gw": None,
        "co2": None,
        "start": "2001/05/01",
        "end": "2001/08/30",
        "off_season": False,
        "weather": {"kind": "word", "word": "mix", "dev": [], "lead": 0, "trail": 0},
    }
    s = copy.deepcopy(s)
    for k, v in over.items():
        s[k] = copy.deepcopy(v)
    return s


def with_(spec, **over):
    s = copy.deepcopy(spec)
    for k, v in over.items():
        s[k] = copy.deepcopy(v)
    return s


def iwc_for(soil_spec, kind):
    """One initial-water entry per soil layer (a layer without an entry silently gets theta = 0)."""
    n = soil_nlayers(soil_spec)
    layers = list(range(1, n + 1))
    if kind in ("WP", "FC", "SAT"):
        return {"wc_type": "Prop", "method": "Layer", "depth_layer": layers, "value": [kind] * n}
    if kind.startswith("Pct"):
        return {"wc_type": "Pct", "method": "Layer", "depth_layer": layers, "value": [float(kind[3:])] * n}
    if kind == "Depth":
        return {"wc_type": "Pct", "method": "Depth", "depth_layer": [0.2, 0.6, 1.0], "value": [30.0, 70.0, 100.0]}
    if kind == "DepthDryTop":
        # an air-dry / wilting-point surface over a wet subsoil
        return {"wc_type": "Pct", "method": "Depth", "depth_layer": [0.05, 0.15, 0.6], "value": [0.0, 100.0, 100.0]}
    if kind == "DepthWetTop":
        # a moist surface over a dry subsoil: the first compartments of the initial root zone straddle any irrigation threshold
        return {"wc_type": "Pct", "method": "Depth", "depth_layer": [0.05, 0.25, 0.6], "value": [100.0, 20.0, 20.0]}
    raise ValueError(kind)


GDD_KEYS = ("Emergence", "MaxRooting", "Senescence", "Maturity", "HIstart", "Flowering", "YldForm")


def scaled_gdd_kwargs(name, f):
    """Thermal-time crop with all thermal phase lengths x f and canopy rates / f (a short thermal crop)."""
    from aquacrop.entities.crops.crop_params import crop_params

    p = crop_params[name]
    if p["CalendarType"] != 2:
        raise ValueError("only thermal crops")
    kw = {}
    for k in GDD_KEYS:
        v = float(p[k])
        kw[k] = v * f if v > 0 else v
    kw["CGC"] = float(p["CGC"]) / f
    kw["CDC"] = float(p["CDC"]) / f
    return kw
