"""acmc -- bounded exhaustive exploration ("model checking" of the implementation) for AquaCrop-OSPy.

The package drives the real `aquacrop` package imported from /repo's working tree (or from
$ACMC_REPO when a scratch copy is being examined).  See /verif/DESIGN.md.
"""
import os
import sys

REPO = os.environ.get("ACMC_REPO", "/repo")
VERIF = os.path.dirname(os.path.dirname(os.path.abspath(__file__)))


def ensure_repo_on_path():
    """Make sure `import aquacrop` resolves to REPO's working tree (beats the editable install)."""
    os.environ.setdefault("AQUACROP_VERIF", "1")
    sys.dont_write_bytecode = True
    if sys.path[0] != REPO:
        sys.path.insert(0, REPO)
    import warnings

    warnings.filterwarnings("ignore")
    import aquacrop  # noqa: F401

    got = os.path.dirname(os.path.dirname(os.path.abspath(aquacrop.__file__)))
    if os.path.realpath(got) != os.path.realpath(REPO):
        raise RuntimeError(f"aquacrop imported from {got}, expected {REPO}")
