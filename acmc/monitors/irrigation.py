"""C13: per-strategy irrigation contracts, decision re-computed from the inputs/outputs of the real irrigation() call."""
import numpy as np
import pandas as pd

from ..driver import Monitor, FX, _TAP_STATE

TOL = 1e-9


def ref_depletion(b):
    """Reference for 'estimated root-zone depletion': water missing from field capacity in the root zone (at most the total available
    water), plus today's evaporation and transpiration demand, minus rain net of runoff, minus water held above field capacity.
    Straight sums without the per-compartment rounding of the implementation (hence the tolerance at the call site)."""
    prof, crop = b["prof"], b["Crop"]
    th = np.array(b["NewCond_th"], dtype=float)
    dz = np.array(prof.dz, dtype=float)
    bot = np.cumsum(dz)
    top = bot - dz
    rd = round(max(float(b["NewCond_Zroot"]), float(crop.Zmin)), 2)
    frac = np.clip((np.minimum(bot, rd) - top) / dz, 0.0, 1.0)
    w = frac * 1000.0 * dz
    wr = max(0.0, float((w * th).sum()))
    wfc = float((w * np.array(prof.th_fc, dtype=float)).sum())
    wwp = float((w * np.array(prof.th_wp, dtype=float)).sum())
    taw = max(wfc - wwp, 0.0)
    dr = min(wfc - wr, taw)
    abv = max(wr - wfc, 0.0)
    dep = dr + float(b["NewCond_Tpot"]) + float(b["NewCond_Epot"]) - float(b["Rain"]) + float(b["Runoff"]) - abv
    return {"D": dep, "TAW": taw, "n": int((frac > 0).sum())}


class C13Irrigation(Monitor):
    pid = "C13"
    taps = ("irrigation", "infiltration")

    def __init__(self):
        self.call = None
        self.infil_irr = None

    # ---- taps ---------------------------------------------------------------------------------
    def before(self, name, bound, args, kwargs):
        if name == "irrigation":
            self.call = {"in": dict(bound) if bound is not None else None}
            # yesterday's potential soil evaporation and transpiration, as handed to today's depletion estimate, against the values the
            # flux table reported for yesterday (same season, yesterday in season)
            prev = getattr(self, "prev_pot", None)
            if bound is not None and prev is not None and "NewCond_Epot" in bound and "NewCond_Tpot" in bound:
                self.call["pot"] = {"Epot": float(bound["NewCond_Epot"]), "Tpot": float(bound["NewCond_Tpot"]), "EsPot_reported_yesterday": prev[0], "TrPot_reported_yesterday": prev[1]}
            try:
                self.call["ref"] = ref_depletion(bound) if bound is not None else None
            except Exception as e:  # noqa: BLE001 - the reference must never break the run
                self.call["ref"] = None
                self.call["ref_error"] = repr(e)
        elif name == "infiltration":
            self.infil_irr = (bound or {}).get("Irr") if bound is not None else None

    def after(self, name, bound, ret):
        if name == "irrigation" and self.call is not None:
            # the white-box part only understands the interface (depletion, TAW, cumulative, applied); anything else -> table-only oracle
            try:
                ok = len(ret) == 4 and all(np.isscalar(x) or np.ndim(x) == 0 for x in ret)
            except TypeError:
                ok = False
            self.call["out"] = ret if ok else None
            if not ok:
                self.call["iface"] = "irrigation() no longer returns (depletion, TAW, cumulative, applied)"
        return None

    # ---- monitor ------------------------------------------------------------------------------
    def on_init(self, ctx):
        m = ctx.model
        im = m._param_struct.IrrMngt
        # contracts are checked against what the USER configured; the model's struct only supplies defaults
        kw = (ctx.spec.get("irr") or {}).get("kw") or {}
        self.method = int(im.irrigation_method)
        self.maxirr = float(kw.get("MaxIrr", im.MaxIrr))
        self.cap = float(kw.get("MaxIrrSeason", im.MaxIrrSeason))
        self.eff = float(kw.get("AppEff", im.AppEff))
        # thresholds: the user's, else the documented default of the threshold strategy (100 % in all four stages)
        self.smt = [float(x) for x in np.asarray(kw.get("SMT", [100.0] * 4 if self.method == 1 else im.SMT), dtype=float)]
        self.interval = int(kw.get("IrrInterval", im.IrrInterval))
        self.depth = float(kw.get("depth", im.depth))
        sch = (ctx.spec.get("irr") or {}).get("schedule") or []
        self.sched = {}
        for d, x in sch:
            self.sched[pd.Timestamp(d.replace("/", "-"))] = float(x)
        self.cum = 0.0
        self.cur_season = None
        # the stage 1 / stage 2 boundary (10 % canopy cover) of a calendar-day crop, from the user's keywords and the crop table:
        # emergence (or transplant recovery) + ln(0.1 / CC0) / CGC
        self.t10 = None
        try:
            import math as _math
            from aquacrop.entities.crops.crop_params import crop_params as _tbl
            from .. import spec as _S2

            cs_ = ctx.spec["crop"]
            kw_ = dict(cs_.get("kw") or {})
            if cs_.get("scale"):
                kw_ = {**_S2.scaled_crop_kwargs(cs_["name"], cs_["scale"]), **kw_}
            tb_ = _tbl.get(cs_["name"], {})

            def cv(k):
                return float(kw_[k]) if k in kw_ else float(tb_[k])

            if int(tb_.get("CalendarType", 1)) == 1 and not kw_.get("SwitchGDD") and not cs_.get("gddscale"):
                cc0 = cv("PlantPop") * cv("SeedSize") * 1e-8
                self.t10 = round(cv("EmergenceCD") + _math.log(0.1 / cc0) / cv("CGC_CD"))
        except Exception:  # noqa: BLE001
            self.t10 = None
        # days that are outside every growing season BY CONFIGURATION: a season lasts from its planting date to the day before the
        # latest harvest date (the user's, or planting + calendar length + 30 days for calendar crops; unknown for thermal crops)
        self.windows = None
        try:
            import datetime as _dt
            from .. import alphabets as _A
            from .. import spec as _S

            cs = ctx.spec["crop"]
            pm, pdd = (int(x) for x in cs["planting"].split("/"))
            s0, e0 = _S.parse_date(ctx.spec["start"]), _S.parse_date(ctx.spec["end"])
            wins = []
            for y in range(s0.year - 1, e0.year + 1):
                p0 = _dt.datetime(y, pm, pdd)
                if cs.get("harvest"):
                    hm, hd = (int(x) for x in cs["harvest"].split("/"))
                    h0 = _dt.datetime(y, hm, hd)
                    if h0 <= p0:
                        h0 = _dt.datetime(y + 1, hm, hd)
                elif not cs["name"].endswith("GDD") and not (cs.get("kw") or {}).get("SwitchGDD") and not cs.get("gddscale"):
                    h0 = p0 + _dt.timedelta(days=int(_A.crop_length_days(cs)) + 30)
                else:
                    wins = None
                    break
                wins.append((p0, h0))
            self.windows = wins
        except Exception:  # noqa: BLE001 - no configuration-derived calendar: the flag-based clauses remain
            self.windows = None

    def _advance_stage(self, ctx, post):
        """Reference growth-stage automaton: time since sowing in the units of the crop calendar, minus the time during which the
        seed had not germinated (counted here from the germination flag), against the season crop's stage boundaries."""
        from .crop import season_crop
        from ..driver import GX

        cond = ctx.model._init_cond
        g = post.growth
        if not bool(getattr(cond, "germination", True)):
            self.del_days += 1
            self.del_gdd += float(g[GX["gdd"]])
        crop = season_crop(ctx, post.season)
        if int(crop.CalendarType) == 1:
            tadj = float(g[GX["dap"]]) - self.del_days
        else:
            tadj = float(g[GX["gdd_cum"]]) - self.del_gdd
        if float(crop.MaxCanopy) > float(crop.Senescence):
            ctx.hit("max_canopy_after_senescence_start")
        t10 = float(crop.Canopy10Pct)
        if self.t10 is not None and int(crop.CalendarType) == 1:
            ctx.hit("stage_boundary_from_the_configuration")
            if abs(t10 - self.t10) > 1e-9:
                ctx.violate("threshold-uses-current-growth-stage", None, observed={"time_to_10pct_canopy": t10}, expected={"emergence + ln(0.1/CC0)/CGC": self.t10})
            t10 = float(self.t10)
        if tadj <= t10:
            self.ref_stage = 1
        elif tadj <= float(crop.MaxCanopy):
            self.ref_stage = 2
        elif tadj <= float(crop.Senescence):
            self.ref_stage = 3
        else:
            self.ref_stage = 4

    def on_transition(self, ctx, pre, post):
        f = post.flux
        t = pre.t
        irr = float(f[FX["IrrDay"]])
        dap = int(f[FX["dap"]])
        ctx.evals += 1
        call, self.call = self.call, None
        infil_irr, self.infil_irr = self.infil_irr, None
        if self.windows is not None and self.method != 4:
            day = pd.Timestamp(pre.date).to_pydatetime()
            if not any(p0 <= day < h0 for p0, h0 in self.windows):
                ctx.hit("day_outside_every_configured_season")
                if irr != 0 or post.gs:
                    ctx.violate("no-irrigation-outside-season", t, observed={"date": str(day.date()), "IrrDay": irr, "reported_in_season": bool(post.gs)},
                                expected="a day outside every planting date .. latest harvest date window is off-season and gets no water")
                    return
        pot, prev_season = (call or {}).get("pot"), getattr(self, "prev_pot_season", None)
        self.prev_pot = (float(f[FX["EsPot"]]), float(f[FX["TrPot"]])) if post.gs else None
        self.prev_pot_season = post.season if post.gs else None
        if post.gs and pot is not None and dap > 1 and prev_season == post.season and self.method in (1, 2):
            ctx.hit("yesterdays_potential_rates_checked")
            if abs(pot["Epot"] - pot["EsPot_reported_yesterday"]) > 1e-9 or abs(pot["Tpot"] - pot["TrPot_reported_yesterday"]) > 1e-9:
                ctx.violate("depletion-estimate", t, observed=pot, expected="the estimate adds the potential soil evaporation and transpiration reported for yesterday")
        if not post.gs:
            if irr != 0:
                ctx.violate("no-irrigation-outside-season", t, observed=irr, expected=0)
            if call and call.get("out") is not None and float(call["out"][3]) != 0:
                ctx.violate("no-irrigation-outside-season", t, observed={"irrigation() returned": float(call["out"][3])}, expected=0)
            if self.method == 3 and self.sched.get(pd.Timestamp(pre.date), 0) > 0:
                ctx.hit("scheduled_date_outside_season")
            ctx.hit("off_season_day")
            return
        if dap == 1 or self.cur_season != post.season:
            self.cum = 0.0
            self.cur_season = post.season
            self.del_days, self.del_gdd, self.ref_stage = 0, 0.0, 1
        stage_in_force = getattr(self, "ref_stage", 1)   # decided at the end of yesterday (1 on the first day of a season)
        self._advance_stage(ctx, post)
        m = self.method
        if m == 0:
            if irr != 0:
                ctx.violate("rainfed-no-irrigation", t, observed=irr, expected=0)
            return
        if m == 4:
            if infil_irr is not None and float(infil_irr) != 0:
                ctx.violate("net-mode-no-surface-irrigation", t, observed=float(infil_irr), expected=0)
            if call and call.get("out") is not None and float(call["out"][3]) != 0:
                ctx.violate("net-mode-no-surface-irrigation", t, observed=float(call["out"][3]), expected=0)
            ncomp = max(1, len(post.th_end))
            if not (irr >= -0.01 * ncomp):
                ctx.violate("net-requirement-nonnegative", t, observed=irr, expected={"ge": -0.01 * ncomp})
            if irr > 0:
                ctx.hit("net_irrigation_day")
            return
        # ---- surface strategies 1, 2, 3, 5 ------------------------------------------------------
        if call and call.get("ref") and call.get("out") is not None and m in (1, 2):
            ref = call["ref"]
            tol = 0.02 * (ref["n"] + 1)
            D_, T_ = float(call["out"][0]), float(call["out"][1])
            if abs(D_ - ref["D"]) > tol or abs(T_ - ref["TAW"]) > tol:
                ctx.violate("depletion-estimate", t, observed={"depletion": D_, "TAW": T_}, expected={"depletion": ref["D"], "TAW": ref["TAW"], "tol": tol})
            ctx.hit("depletion_estimate_checked")
        elif call and call.get("ref_error"):
            ctx.notes.append("reference depletion failed: " + call["ref_error"][:80])
        if call and call.get("out") is not None:
            ret_irr = float(call["out"][3])
            if ret_irr != irr:
                ctx.violate("irrday-column-equals-decision", t, observed=irr, expected=ret_irr)
        if irr < 0:
            ctx.violate("application-nonnegative", t, observed=irr, expected=">=0")
        if irr > self.maxirr + TOL:
            ctx.violate("application-le-daily-max", t, observed=irr, expected={"MaxIrr": self.maxirr})
        remaining = max(0.0, self.cap - self.cum)
        if self.cum + irr > self.cap + TOL * max(1.0, self.cap):
            ctx.violate("seasonal-total-le-max", t, observed=self.cum + irr, expected={"MaxIrrSeason": self.cap})

        def capped(x):
            x = max(0.0, min(self.maxirr, x))
            if self.cum + x > self.cap:
                x = max(0.0, self.cap - self.cum)
            return x

        if m == 2:
            on = (dap - 1) % self.interval == 0
            if irr > 0 and not on:
                ctx.violate("interval-days-only", t, observed={"dap": dap, "irr": irr}, expected={"interval": self.interval})
            if on:
                ctx.hit("interval_day")
                if call and call.get("out") is not None:
                    D = float(call["out"][0])
                    self._amount(ctx, t, irr, D, capped, "interval-amount")
        elif m == 3:
            want = capped(self.sched.get(pd.Timestamp(pre.date), 0.0))
            if abs(irr - want) > TOL * max(1.0, want):
                ctx.violate("schedule-exact", t, observed=irr, expected={"scheduled": self.sched.get(pd.Timestamp(pre.date), 0.0), "after_caps": want, "date": str(pre.date)})
            if want > 0:
                ctx.hit("scheduled_application")
            if self.sched.get(pd.Timestamp(pre.date), 0.0) > self.maxirr:
                ctx.hit("schedule_capped_by_daily_max")
        elif m == 5:
            want = capped(self.depth)
            if abs(irr - want) > TOL * max(1.0, want):
                ctx.violate("constant-depth-every-day", t, observed=irr, expected=want)
        elif m == 1:
            if call and call.get("in") is not None and call.get("out") is not None:
                D, taw = float(call["out"][0]), float(call["out"][1])
                g_raw = call["in"].get("NewCond_GrowthStage")
                g = int(g_raw) if g_raw is not None else stage_in_force   # argument renamed: fall back to the reference stage
                if dap == 1:
                    g = 1
                # the growth stage is re-derived from the crop calendar and the delay of germination counted by the monitor
                if g != stage_in_force:
                    ctx.violate("threshold-uses-current-growth-stage", t, observed={"stage_used": g}, expected={"stage_from_calendar": stage_in_force, "dap": dap, "delayed_days": self.del_days})
                    g = stage_in_force
                if self.del_days > 0 and stage_in_force >= 2:
                    ctx.hit("stage_after_delayed_germination")
                thr = 1 - self.smt[g - 1] / 100.0
                trig = (D / taw) > thr if taw != 0 else False
                if trig:
                    ctx.hit("threshold_exceeded_day")
                    self._amount(ctx, t, irr, D, capped, "threshold-amount")
                    if g >= 2:
                        ctx.hit(f"threshold_stage_{g}")
                else:
                    if irr != 0:
                        ctx.violate("threshold-no-irrigation-below", t, observed={"irr": irr, "D/TAW": D / taw if taw else None}, expected={"threshold": thr, "stage": g})
            else:
                ctx.notes.append("irrigation() wrapper could not bind: table-only oracle")
        if irr > 0:
            ctx.hit("irrigated_day")
        if self.cap < 9999 and irr > 0 and abs((self.cum + irr) - self.cap) < 1e-9:
            ctx.hit("seasonal_cap_binding")
        if irr > 0 and abs(irr - self.maxirr) < 1e-12:
            ctx.hit("daily_max_binding")
        self.cum += irr

    def _amount(self, ctx, t, irr, D, capped, clause):
        req = max(0.0, D)
        a1 = capped(req * ((100 - self.eff) + 100) / 100.0)  # the code's reading of "adjusted for efficiency"
        a2 = capped(req / (self.eff / 100.0)) if self.eff > 0 else a1
        ok = any(abs(irr - a) <= TOL * max(1.0, a) for a in (a1, a2))
        if not ok:
            ctx.violate(clause, t, observed=irr, expected={"either": [a1, a2], "depletion": D, "AppEff": self.eff})
