"""Per-transition monitors for the water properties C01-C04."""
import numpy as np

from ..driver import Monitor, FX

EPS = 1e-6
REL = 1e-9


class _Configured:
    """The model's struct, with every setting the USER configured taken from the spec instead (a reader that rewrites a setting
    must not hide a mismatch from the monitors)."""

    def __init__(self, struct, cfg):
        object.__setattr__(self, "_s", struct)
        object.__setattr__(self, "_c", cfg or {})

    def __getattr__(self, k):
        c = object.__getattribute__(self, "_c")
        if k in c:
            # the documented unit contract: bund height is given in m and used in mm
            return c[k] * 1000.0 if k == "z_bund" else c[k]
        return getattr(object.__getattribute__(self, "_s"), k)


def field_in_force(ctx, gs):
    ps = ctx.model._param_struct
    return _Configured(ps.FieldMngt, ctx.spec.get("field")) if gs else _Configured(ps.FallowFieldMngt, ctx.spec.get("fallow"))


def bunds_on(fm):
    return bool(fm.bunds) and float(fm.z_bund) > 0.001


class Geometry:
    """Profile facts read once from the initialised model (and re-read by C12 to prove they do not move)."""

    def __init__(self, model, spec=None):
        prof = model._param_struct.Soil.Profile
        self.dz = np.array(prof.dz, dtype=float, copy=True)
        self.ncomp = len(self.dz)
        self.zsoil = float(self.dz.sum())
        self.th_s = np.array(prof.th_s, dtype=float, copy=True)
        self.th_dry = np.array(prof.th_dry, dtype=float, copy=True)
        self.th_fc = np.array(prof.th_fc, dtype=float, copy=True)
        self.th_wp = np.array(prof.th_wp, dtype=float, copy=True)
        self.ksat = np.array(prof.Ksat, dtype=float, copy=True)
        self.zbot = np.cumsum(self.dz)
        self.zmid = self.zbot - self.dz / 2
        # air dry is DEFINED as half the wilting point (AquaCrop): the bound is derived from the wilting point, not read from the
        # column the model stores
        self.th_dry = self.th_wp / 2.0
        # hydraulic limits of a custom soil come from the CONFIGURATION (reference layer map), not from the profile the model built
        self.limits_from_spec = False
        if spec is not None:
            from ..refmodels import configured_limits

            lim = configured_limits(spec.get("soil") or {})
            if lim is not None and len(lim["th_s"]) == self.ncomp:
                self.th_s, self.th_dry, self.th_fc, self.th_wp, self.ksat = lim["th_s"], lim["th_dry"], lim["th_fc"], lim["th_wp"], lim["ksat"]
                self.limits_from_spec = True


class C01Ledger(Monitor):
    pid = "C01"

    def on_init(self, ctx):
        m = ctx.model
        self.g = Geometry(m, ctx.spec)
        self.th_cfg = np.array(m._init_cond.th, dtype=float, copy=True)  # a COPY of the configured initial content
        self.irr_method = int(m._param_struct.IrrMngt.irrigation_method)
        self.off = bool(m._clock_struct.sim_off_season)
        self.prev_end = None  # (th_end, pond_end, new_season) of the previous transition
        self.wt = int(m._param_struct.water_table)

    def on_transition(self, ctx, pre, post):
        g = self.g
        f = post.flux
        ctx.evals += 1
        # ---- carry-over between consecutive simulated days -----------------------------------
        if self.prev_end is not None:
            th_prev, pond_prev, new_season = self.prev_end
            if new_season and not self.off:
                ctx.hit("season_reset")
                fm = field_in_force(ctx, True)
                pond_cfg = min(float(fm.bund_water), float(fm.z_bund)) if bunds_on(fm) else 0.0
                if pre.th.shape != self.th_cfg.shape or pre.th.tobytes() != self.th_cfg.tobytes():
                    i = int(np.argmax(np.abs(pre.th - self.th_cfg))) if pre.th.shape == self.th_cfg.shape else -1
                    ctx.violate(
                        "reset-to-configured-initial-content",
                        pre.t,
                        observed={"comp": i, "th": float(pre.th[i])},
                        expected={"th": float(self.th_cfg[i])},
                        irr_method=self.irr_method,
                    )
                if pre.pond != pond_cfg:
                    ctx.violate("reset-ponding", pre.t, observed=pre.pond, expected=pond_cfg)
            else:
                if pre.th.tobytes() != np.ascontiguousarray(th_prev).tobytes():
                    i = int(np.argmax(np.abs(pre.th - th_prev)))
                    ctx.violate(
                        "carry-over-th",
                        pre.t,
                        observed={"comp": i, "th": float(pre.th[i])},
                        expected={"th": float(th_prev[i])},
                    )
                if pre.pond != pond_prev:
                    ctx.violate("carry-over-ponding", pre.t, observed=pre.pond, expected=pond_prev)
        # ---- daily ledger -------------------------------------------------------------------
        s0 = 1000.0 * float(np.dot(pre.th, g.dz)) + pre.pond
        s1 = 1000.0 * float(np.dot(post.th_end, g.dz)) + post.pond_end
        irr_net = f[FX["IrrDay"]] if (self.irr_method == 4) else 0.0
        cr = f[FX["CR"]]
        gwin = f[FX["GwIn"]]
        inflow = f[FX["Infl"]] + irr_net + cr + gwin
        outflow = f[FX["DeepPerc"]] + f[FX["Es"]] + f[FX["Tr"]]
        resid = (s1 - s0) - (inflow - outflow)
        tol = EPS + (0.05 * g.zsoil if cr > 0 else 0.0)
        if not (abs(resid) <= tol):
            ctx.violate(
                "daily-balance",
                pre.t,
                observed={"residual_mm": float(resid), "dS": s1 - s0, "in": float(inflow), "out": float(outflow)},
                expected={"abs_residual_le": tol},
                gs=post.gs,
                cr=float(cr),
            )
        # ---- witnesses ----------------------------------------------------------------------
        if f[FX["Runoff"]] > 0:
            ctx.hit("runoff_day")
        if f[FX["DeepPerc"]] > 0:
            ctx.hit("deep_perc_day")
        if cr > 0:
            ctx.hit("capillary_rise_day")
        if gwin > 0:
            ctx.hit("gwin_day")
        if post.pond_end > 0:
            ctx.hit("ponded_day")
        if pre.pond > 0 and not bunds_on(field_in_force(ctx, post.gs)):
            ctx.hit("bund_removal_day")
        if self.irr_method == 4 and post.gs and f[FX["dap"]] == 1 and f[FX["IrrDay"]] > 0:
            ctx.hit("pre_irrigation_day")
        if f[FX["IrrDay"]] > 0:
            ctx.hit("irrigation_day")
        if f[FX["Tr"]] > 0:
            ctx.hit("transpiration_day")
        self.prev_end = (post.th_end.copy(), post.pond_end, post.new_season)


class C02Partition(Monitor):
    pid = "C02"

    def on_init(self, ctx):
        m = ctx.model
        self.irr = m._param_struct.IrrMngt
        self.g = Geometry(m, ctx.spec)

    def on_transition(self, ctx, pre, post):
        f = post.flux
        ctx.evals += 1
        from ..driver import configured_weather
        P = configured_weather(ctx, pre.date)[2]     # the rain the USER supplied for this date, not the model's own matrix
        method = int(self.irr.irrigation_method)
        irr = float(f[FX["IrrDay"]]) if (post.gs and method != 4) else 0.0
        # the efficiency the USER configured (a constructor that rewrites it must not hide a mismatch)
        eff = float(((ctx.spec.get("irr") or {}).get("kw") or {}).get("AppEff", self.irr.AppEff)) / 100.0
        applied = P + irr * eff
        infl = float(f[FX["Infl"]])
        ro = float(f[FX["Runoff"]])
        tol = EPS
        if abs((infl + ro) - applied) > tol:
            ctx.violate(
                "partition-equality",
                pre.t,
                observed={"Infl": infl, "Runoff": ro, "sum": infl + ro},
                expected={"P_plus_eff_irr": applied, "P": P, "Irr": irr, "eff": eff},
                gs=post.gs,
            )
        if ro < -REL:
            ctx.violate("runoff-nonnegative", pre.t, observed=ro, expected=">=0")
        if ro > applied + pre.pond + tol:
            ctx.violate("runoff-upper-bound", pre.t, observed=ro, expected={"le": applied + pre.pond})
        fm = field_in_force(ctx, post.gs)
        # "the day bunds are removed": the management struct in force today has no bunds, or bunds lower than
        # the water ponded at the start of the day (bunds lowered between season and fallow): the water above
        # the new height is released as runoff, which is the only way reported infiltration may be negative
        zb = float(fm.z_bund) if bunds_on(fm) else 0.0
        zb_prev = getattr(self, "zb_prev", None)
        self.zb_prev = zb
        # ... and only if that water was legally ponded under yesterday's struct (otherwise it is not a removal day but
        # ponding above the bund top, which no struct change explains)
        # (on the first simulated day there is no yesterday: the initial pond must be legal under today's struct)
        legal_yesterday = (pre.pond <= zb + tol) if zb_prev is None else (pre.pond <= zb_prev + tol)
        removal = pre.pond > zb and legal_yesterday
        if removal:
            ctx.hit("bund_removal_day")
            if infl < -pre.pond - tol:
                ctx.violate("infl-bund-removal-bound", pre.t, observed=infl, expected={"ge": -pre.pond})
            if infl < -(pre.pond - zb) - tol:
                ctx.violate("infl-bund-lowering-bound", pre.t, observed=infl, expected={"ge": -(pre.pond - zb)})
        elif infl < -REL:
            ctx.violate("infl-nonnegative", pre.t, observed=infl, expected=">=0 (no bund removal today)", pond_before=pre.pond)
        if P == 0 and irr == 0 and pre.pond == 0:
            if infl != 0 or ro != 0:
                ctx.violate("dry-day-zero", pre.t, observed={"Infl": infl, "Runoff": ro}, expected={"Infl": 0, "Runoff": 0})
        # witnesses
        if ro > 0 and not bunds_on(fm):
            if P > 0 and applied <= self.g.ksat[0]:
                ctx.hit("curve_number_runoff_day")
            if applied > self.g.ksat[0]:
                ctx.hit("ksat_limited_day")
        if bunds_on(fm) and ro > 0:
            ctx.hit("bund_overtopping_day")
        if bunds_on(fm) and post.pond_end > 0:
            ctx.hit("ponded_day")
        if irr > 0:
            ctx.hit("irrigated_day")
        if P >= 300:
            ctx.hit("storm_day")
        if ro > 0 and P == 0 and irr > 0:
            ctx.hit("irrigation_only_runoff_day")


class C03Bounds(Monitor):
    pid = "C03"

    def on_init(self, ctx):
        m = ctx.model
        self.g = Geometry(m, ctx.spec)
        ps = m._param_struct
        self.any_bunds = bunds_on(field_in_force(ctx, True)) or bunds_on(field_in_force(ctx, False))
        th0 = np.asarray(m._init_cond.th, dtype=float)
        # premise of the property: the configured initial water content lies between wilting point and saturation in every
        # compartment (a depth-interpolated specification can violate it on layered soils: its depth points take their value from
        # the layer AT the point and are held constant below the last point, into layers with a smaller pore space)
        self.premise = bool(((th0 >= self.g.th_wp - REL) & (th0 <= self.g.th_s + REL)).all())
        if not self.premise:
            ctx.notes.append("premise not met: configured initial water content outside [wilting point, saturation]; scenario skipped")
            return
        # the struct in force on the first day follows from the dates alone: in season iff the run starts on the planting day
        from .. import spec as S
        sd = S.parse_date(ctx.spec["start"])
        pm, pdd = (int(x) for x in ctx.spec["crop"]["planting"].split("/"))
        gs0 = (sd.month, sd.day) == (pm, pdd)
        self.check_state(ctx, -1, th0, float(m._init_cond.surface_storage), field_in_force(ctx, gs0), None)

    def check_state(self, ctx, t, th, pond, fm, wr):
        g = self.g
        ctx.evals += 1
        lo = th < g.th_dry - REL
        hi = th > g.th_s + REL
        if lo.any():
            i = int(np.argmax(lo))
            ctx.violate("theta-ge-air-dry", t, observed={"comp": i, "th": float(th[i])}, expected={"ge": float(g.th_dry[i])})
        if hi.any():
            i = int(np.argmax(hi))
            ctx.violate("theta-le-saturation", t, observed={"comp": i, "th": float(th[i])}, expected={"le": float(g.th_s[i])})
        if not np.isfinite(th).all():
            ctx.violate("theta-finite", t, observed="non-finite water content")
        if pond < 0:
            ctx.violate("ponding-nonnegative", t, observed=pond, expected=">=0")
        if not self.any_bunds and pond != 0:
            ctx.violate("ponding-zero-without-bunds", t, observed=pond, expected=0)
        if fm is not None:
            zb = float(fm.z_bund) if bunds_on(fm) else 0.0
            if pond > zb + REL:
                ctx.violate("ponding-le-bund-height", t, observed=pond, expected={"le": zb})
        if wr is not None and wr < 0:
            ctx.violate("root-zone-storage-nonnegative", t, observed=wr, expected=">=0")
        # witnesses
        if (th <= g.th_dry + 1e-6).any():
            ctx.hit("air_dry_compartment")
        if (th >= g.th_s - 1e-9).any():
            ctx.hit("saturated_compartment")
        if (th < g.th_wp).any():
            ctx.hit("below_wilting_point")
        if pond > 0:
            ctx.hit("ponded_state")
        if fm is not None and bunds_on(fm) and pond >= 0.5 * float(fm.z_bund):
            ctx.hit("pond_above_half_bund_height")

    def on_transition(self, ctx, pre, post):
        if not self.premise:
            return
        fm = field_in_force(ctx, post.gs)
        self.check_state(ctx, pre.t, post.th_end, post.pond_end, fm, float(post.flux[FX["Wr"]]))


FLUX_NONNEG = ("Runoff", "DeepPerc", "CR", "GwIn", "Es", "EsPot", "Tr", "TrPot")


class C04Flux(Monitor):
    pid = "C04"

    def on_init(self, ctx):
        m = ctx.model
        self.method = int(m._param_struct.IrrMngt.irrigation_method)
        self.g = Geometry(m, ctx.spec)

    def on_transition(self, ctx, pre, post):
        f = post.flux
        ctx.evals += 1
        for name in FLUX_NONNEG:
            v = float(f[FX[name]])
            if not (v >= -REL):
                ctx.violate(f"nonneg-{name}", pre.t, observed=v, expected=">=0", gs=post.gs, cc=float(post.growth[6]))
        irr = float(f[FX["IrrDay"]])
        if self.method == 4:
            zr = float(post.growth[5])
            ncomp = int(np.sum(self.g.zbot - self.g.dz < max(zr, 0.0))) or 1
            if not (irr >= -0.01 * ncomp):
                ctx.violate("net-irrigation-nonneg", pre.t, observed=irr, expected={"ge": -0.01 * ncomp})
        elif not (irr >= 0):
            ctx.violate("nonneg-IrrDay", pre.t, observed=irr, expected=">=0")
        es, espot, tr, trpot = (float(f[FX[k]]) for k in ("Es", "EsPot", "Tr", "TrPot"))
        if not (es <= espot + REL * max(1.0, abs(espot))):
            ctx.violate("Es-le-EsPot", pre.t, observed={"Es": es, "EsPot": espot}, expected="Es<=EsPot", gs=post.gs, cc=float(post.growth[6]))
        if not (tr <= trpot + REL * max(1.0, abs(trpot))):
            ctx.violate("Tr-le-TrPot", pre.t, observed={"Tr": tr, "TrPot": trpot}, expected="Tr<=TrPot")
        if not post.gs:
            if tr != 0 or trpot != 0 or irr != 0:
                ctx.violate("off-season-zero", pre.t, observed={"Tr": tr, "TrPot": trpot, "IrrDay": irr}, expected="all 0")
            ctx.hit("off_season_day")
        # witnesses
        cc = float(post.growth[6])
        if cc > 0.96:
            ctx.hit("cc_above_0.96_day")
        if post.pond_end > 0 or pre.pond > 0:
            ctx.hit("ponded_day")
        if es > 0 and es < espot - 1e-9:
            ctx.hit("es_limited_day")
        if tr > 0 and tr < trpot - 1e-9:
            ctx.hit("tr_limited_day")
        if irr > 0:
            ctx.hit("irrigated_day")
        fm = field_in_force(ctx, post.gs)
        if fm.mulches:
            ctx.hit("mulched_day")
