"""Per-transition / per-execution monitors for the crop properties C05 and C06."""
import math

import numpy as np
import pandas as pd

from ..driver import Monitor, FX, GX, tables

REL = 1e-9


def season_crop(ctx, season):
    return ctx.model._param_struct.Seasonal_Crop_List[season]


def configured(ctx, key, fallback):
    """A crop parameter as the user configured it: keyword override, else the documented crop table, else `fallback`."""
    try:
        from aquacrop.entities.crops.crop_params import crop_params as _tbl

        cs = ctx.spec["crop"]
        kw = cs.get("kw") or {}
        if key in kw:
            return float(kw[key])
        v = _tbl.get(cs["name"], {}).get(key)
        return float(v) if v is not None else float(fallback)
    except Exception:  # noqa: BLE001
        return float(fallback)


class _Envelope:
    """Season crop copy for calendar facts, configured crop for the envelope parameters."""

    ENV = ("CCx", "Zmin", "Zmax", "HI0", "dHI0", "Tupp", "Tbase")

    def __init__(self, season_copy, cfg):
        self._s, self._c = season_copy, cfg

    def __getattr__(self, k):
        return getattr(self._c if k in _Envelope.ENV else self._s, k)


class C05Envelope(Monitor):
    pid = "C05"

    def on_init(self, ctx):
        self.prev = None  # (season, t, growth row, zgw)
        self.gdd_sum = 0.0
        self.wt = int(ctx.model._param_struct.water_table)
        # the envelope is the one the USER configured: a fresh Crop built from the spec, not the model's internal
        # per-season copies (which a defect may have altered)
        from .. import spec as S

        fresh = S.make_crop(ctx.spec["crop"])
        # the envelope parameters as CONFIGURED: the user's keyword override, else the documented crop table (a fresh Crop object only
        # where neither has the key - the constructor is code under test too)
        try:
            from aquacrop.entities.crops.crop_params import crop_params as _tbl

            cs = ctx.spec["crop"]
            kw = dict(cs.get("kw") or {})
            if cs.get("scale"):
                kw = {**S.scaled_crop_kwargs(cs["name"], cs["scale"]), **kw}
            if cs.get("gddscale"):
                kw = {**S.scaled_gdd_kwargs(cs["name"], cs["gddscale"]), **kw}
            table = _tbl.get(cs["name"], {})

            class _Cfg:
                pass

            cfg = _Cfg()
            for k in _Envelope.ENV:
                v = kw.get(k, table.get(k, getattr(fresh, k, None)))
                setattr(cfg, k, float(v) if v is not None else None)
            self.cfg = cfg
        except Exception:  # noqa: BLE001
            self.cfg = fresh

    def on_transition(self, ctx, pre, post):
        g = post.growth
        f = post.flux
        t = pre.t
        ctx.evals += 1
        if not np.isfinite(g).all():
            bad = [k for k, i in GX.items() if not np.isfinite(g[i])]
            ctx.violate("crop-outputs-finite", t, observed={k: repr(float(g[GX[k]])) for k in bad}, expected="finite", sig_cols=bad)
        if not post.gs:
            ctx.hit("off_season_row")
            if getattr(self, "died", False):
                ctx.hit("fallow_after_death_row")
            vals = {k: float(g[GX[k]]) for k in ("canopy_cover", "canopy_cover_ns", "biomass", "biomass_ns", "DryYield", "FreshYield", "dap")}
            if any(v != 0 for v in vals.values()):
                ctx.violate("off-season-zero", t, observed=vals, expected="all 0")
            self.prev = None
            return
        season = pre.season if pre.season >= 0 else post.season
        self.died = bool(getattr(ctx.model._init_cond, "crop_dead", False))
        crop = season_crop(ctx, post.season)
        cfg = self.cfg
        crop = _Envelope(crop, cfg)
        cc, ccns = float(g[GX["canopy_cover"]]), float(g[GX["canopy_cover_ns"]])
        zr = float(g[GX["z_root"]])
        hi, hiadj = float(g[GX["harvest_index"]]), float(g[GX["harvest_index_adj"]])
        b, bns = float(g[GX["biomass"]]), float(g[GX["biomass_ns"]])
        gdd, gddc = float(g[GX["gdd"]]), float(g[GX["gdd_cum"]])
        dap = float(g[GX["dap"]])
        ccx = float(crop.CCx)
        if not (-REL <= cc <= ccx + REL):
            ctx.violate("cc-in-0-ccx", t, observed=cc, expected={"ccx": ccx})
        if not (cc <= ccns + REL):
            ctx.violate("cc-le-cc-ns", t, observed={"cc": cc, "cc_ns": ccns}, expected="cc<=cc_ns")
        if not (ccns <= ccx + REL):
            ctx.violate("ccns-le-ccx", t, observed=ccns, expected={"ccx": ccx})
        zmin, zmax = float(crop.Zmin), float(crop.Zmax)
        if not (zmin - REL <= zr <= zmax + REL):
            ctx.violate("zroot-in-zmin-zmax", t, observed=zr, expected={"zmin": zmin, "zmax": zmax})
        zgw = float(f[FX["z_gw"]]) if self.wt == 1 else None
        if zgw is not None and ctx.spec.get("gw"):
            # the table depth the USER configured for this date (held / interpolated observations), where the observations cover it
            try:
                from .groundwater import reference_zgw

                vals, cov = reference_zgw(ctx.spec["gw"], [pre.date])
                if bool(cov[0]):
                    zgw = float(vals[0])
                    ctx.hit("table_depth_from_the_configured_observations")
            except Exception:  # noqa: BLE001
                pass
        if zgw is not None and zgw >= 0:
            ctx.hit("table_present_day")
            if zgw >= zmin and zr > zgw + REL:
                ctx.violate("zroot-above-table", t, observed={"z_root": zr, "z_gw": zgw}, expected="z_root<=z_gw")
            if zgw < zmax:
                ctx.hit("table_above_zmax_day")
        hi0 = float(crop.HI0)
        if not (hi <= hi0 + REL):
            ctx.violate("hi-le-hi0", t, observed=hi, expected={"HI0": hi0})
        dhi0 = max(float(crop.dHI0), 0.0)
        cap = hi0 * (1 + dhi0 / 100.0)
        if not (hiadj <= cap * (1 + 1e-12) + REL):
            ctx.violate("hiadj-le-cap", t, observed=hiadj, expected={"cap": cap, "HI0": hi0, "dHI0": float(crop.dHI0)})
        rng = float(crop.Tupp) - float(crop.Tbase)
        if not (-REL <= gdd <= rng + REL):
            ctx.violate("gdd-in-range", t, observed=gdd, expected={"max": rng})
        if dap == 1:
            self.gdd_sum = 0.0
            self.prev = None
        self.gdd_sum += gdd
        if abs(self.gdd_sum - gddc) > REL * max(1.0, abs(gddc)) * 100:
            ctx.violate("gdd-sum", t, observed={"sum": self.gdd_sum, "gdd_cum": gddc}, expected="equal")
        p = self.prev
        if p is not None and p[0] == post.season:
            pg, pzgw = p[2], p[3]
            if float(pg[GX["dap"]]) + 1 != dap:
                pass  # calendar is C07's business
            pzr = float(pg[GX["z_root"]])
            if zr < pzr - REL:
                forced = zgw is not None and zgw >= 0 and zgw < pzr
                if forced:
                    ctx.hit("root_pushed_up_by_table")
                else:
                    ctx.violate("zroot-monotone", t, observed={"z_root": zr, "prev": pzr, "z_gw": zgw}, expected="non-decreasing")
            if hi < float(pg[GX["harvest_index"]]) - REL:
                ctx.violate("hi-monotone", t, observed={"hi": hi, "prev": float(pg[GX["harvest_index"]])}, expected="non-decreasing")
            if b < float(pg[GX["biomass"]]) - REL:
                ctx.violate("biomass-monotone", t, observed={"b": b, "prev": float(pg[GX["biomass"]])}, expected="non-decreasing")
            if bns < float(pg[GX["biomass_ns"]]) - REL:
                ctx.violate("biomass-ns-monotone", t, observed={"b": bns, "prev": float(pg[GX["biomass_ns"]])}, expected="non-decreasing")
            if gddc < float(pg[GX["gdd_cum"]]) - REL:
                ctx.violate("gddcum-monotone", t, observed={"gdd_cum": gddc, "prev": float(pg[GX["gdd_cum"]])}, expected="non-decreasing")
            if cc < float(pg[GX["canopy_cover"]]) - 1e-6 and dap < float(crop.Senescence if crop.CalendarType == 1 else 1e9):
                ctx.hit("early_canopy_decline_day")
        self.prev = (post.season, t, g.copy(), zgw)
        # witnesses
        cond = ctx.model._init_cond
        if cc >= ccx - 1e-3:
            ctx.hit("cc_at_ccx_day")
        if hiadj > hi0 + 1e-9:
            ctx.hit("hiadj_above_hi0_day")
        if hi > 0:
            ctx.hit("yield_formation_day")
        if zr >= zmax - 1e-6:
            ctx.hit("zroot_at_zmax_day")
        if gdd == 0:
            ctx.hit("cold_day_gdd0")
        if gdd >= rng - 1e-9:
            ctx.hit("hot_day_gdd_max")
        if crop.CalendarType == 2:
            ctx.hit("thermal_crop_day")

    def on_end(self, ctx):
        cond = ctx.model._init_cond


class C06Yields(Monitor):
    pid = "C06"

    def on_init(self, ctx):
        m = ctx.model
        self.method = int(m._param_struct.IrrMngt.irrigation_method)
        self.prev = None
        self.harvests = []  # (season, step, dry, fresh, pot, end_date) at the transition that raised the harvest flag
        self.irr_sum = {}
        self.flag_prev = False

    def on_transition(self, ctx, pre, post):
        g, f = post.growth, post.flux
        t = pre.t
        m = ctx.model
        ctx.evals += 1
        season = post.season
        if post.gs:
            crop = season_crop(ctx, season)
            from ..driver import configured_weather
            et0 = configured_weather(ctx, pre.date)[3]   # reference ET of the user's record for this date
            tr = float(f[FX["Tr"]])
            b = float(g[GX["biomass"]])
            dap = float(g[GX["dap"]])
            pb = 0.0 if (self.prev is None or dap == 1 or self.prev[0] != season) else self.prev[1]
            db = b - pb
            # the CO2 adjustment is re-derived from the CONFIGURED concentration of the year in which this season was planted
            if dap == 1 or getattr(self, "co2_season", None) != season:
                from ..refmodels import configured_co2, ref_fco2
                import pandas as _pd
                from .. import spec as _S

                self.co2_season = season
                yr = _pd.Timestamp(pre.date).year if dap == 1 else _pd.Timestamp(m._clock_struct.planting_dates[season]).year
                conc = configured_co2(ctx.spec.get("co2"), yr, _S.parse_date(ctx.spec["start"]).year)
                co2ref = float((ctx.spec.get("co2") or {}).get("ref_concentration", 369.41))   # the configured reference (documented default 369.41)
                self.fco2_ref = ref_fco2(conc, co2ref, configured(ctx, "bsted", crop.bsted), configured(ctx, "bface", crop.bface), configured(ctx, "fsink", crop.fsink), configured(ctx, "WP", crop.WP))
                if abs(self.fco2_ref - float(crop.fCO2)) > 1e-12:
                    ctx.violate("co2-adjustment-of-the-planting-year", t, observed={"fCO2": float(crop.fCO2)}, expected={"fCO2": self.fco2_ref, "ppm": conc, "planting_year": yr}, season=season)
                if conc > co2ref:
                    ctx.hit("co2_above_reference_season")
            wp = configured(ctx, "WP", crop.WP) * float(self.fco2_ref)
            wpy = configured(ctx, "WPy", crop.WPy)
            hi_b = wp * tr / et0
            lo_b = hi_b * min(1.0, wpy / 100.0)
            hi_b = hi_b * max(1.0, wpy / 100.0)
            tol = 1e-9 * max(1.0, abs(b))
            if not (lo_b - tol <= db <= hi_b + tol):
                ctx.violate(
                    "biomass-gain",
                    t,
                    observed={"dB": db, "Tr": tr, "ET0": et0},
                    expected={"lo": lo_b, "hi": hi_b, "WP": float(crop.WP), "fCO2": float(crop.fCO2), "WPy": float(crop.WPy)},
                )
            if db < hi_b - tol and hi_b > 0:
                ctx.hit("wpy_reduced_gain_day")
            if et0 < 0.1 and tr > 0:
                ctx.hit("et0_below_floor_day")
            hiadj = float(g[GX["harvest_index_adj"]])
            hi = float(g[GX["harvest_index"]])
            bns = float(g[GX["biomass_ns"]])
            dry, fresh, pot = (float(g[GX[k]]) for k in ("DryYield", "FreshYield", "YieldPot"))
            e_dry = (b / 100) * hiadj
            if dry != e_dry:
                ctx.violate("dry-yield", t, observed=dry, expected=e_dry)
            yldwc = float(crop.YldWC)
            ukw = (ctx.spec.get("crop") or {}).get("kw") or {}
            if "YldWC" in ukw:
                yldwc = float(ukw["YldWC"])          # the dry-matter percentage the USER configured
                ctx.hit("user_configured_yldwc")
            e_fresh = (dry / (yldwc / 100)) if yldwc != 0 else None
            if e_fresh is None or not math.isfinite(fresh):
                if dry > 0 or not math.isfinite(fresh):
                    ctx.violate("fresh-yield-finite", t, observed=repr(fresh), expected={"YldWC": yldwc}, crop_name=str(crop.Name), yldwc=yldwc)
            elif fresh != e_fresh:
                ctx.violate("fresh-yield", t, observed=fresh, expected=e_fresh)
            e_pot = (bns / 100) * hi
            if pot != e_pot:
                ctx.violate("potential-yield", t, observed=pot, expected=e_pot)
            self.prev = (season, b)
            self.irr_sum[season] = self.irr_sum.get(season, 0.0) + float(f[FX["IrrDay"]])
            if self.method == 4 and dap == 1 and float(f[FX["IrrDay"]]) > 0:
                ctx.hit("pre_irrigation_day")
        # harvest flag raised on this transition?  (observed on the condition object the step just wrote)
        fs = m._outputs.final_stats
        n_rows = len(fs)
        if n_rows > len(self.harvests):
            # a summary row appeared during this transition
            row = fs.iloc[-1]
            g_ = post.growth
            self.harvests.append(
                {
                    "season": season,
                    "step": t,
                    "dry": float(g_[GX["DryYield"]]),
                    "fresh": float(g_[GX["FreshYield"]]),
                    "pot": float(g_[GX["YieldPot"]]),
                    "date_after": pd.Timestamp(pre.date) + pd.Timedelta(days=1),
                }
            )
            cond = m._init_cond
            if getattr(cond, "crop_dead", False):
                ctx.hit("harvest_after_death")
            ctx.hit("harvest")
        if n_rows > len(self.harvests) + 0 and n_rows - len(self.harvests) > 0:
            ctx.violate("summary-row-count", t, observed=n_rows, expected=len(self.harvests))

    def on_end(self, ctx):
        m = ctx.model
        fs = m._outputs.final_stats
        rows = fs.values.tolist()
        idx = [int(i) for i in fs.index.tolist()]
        ctx.evals += 1
        if len(rows) != len(self.harvests):
            ctx.violate("summary-one-row-per-harvest", None, observed=len(rows), expected=len(self.harvests))
            return
        seasons = [int(r[0]) for r in rows]
        if seasons != sorted(set(seasons)) or seasons != [h["season"] for h in self.harvests] or idx != seasons:
            ctx.violate("summary-season-order", None, observed={"rows": seasons, "index": idx}, expected=[h["season"] for h in self.harvests])
        for r, h in zip(rows, self.harvests):
            s = h["season"]
            if int(r[3]) != h["step"]:
                ctx.violate("summary-harvest-step", h["step"], observed=int(r[3]), expected=h["step"])
            if pd.Timestamp(r[2]) != h["date_after"]:
                ctx.violate("summary-harvest-date", h["step"], observed=str(r[2]), expected=str(h["date_after"]))
            for k, col in (("dry", 4), ("fresh", 5), ("pot", 6)):
                a, e = float(r[col]), h[k]
                if not (a == e or (a != a and e != e)):
                    ctx.violate(f"summary-{k}-yield", h["step"], observed=a, expected=e)
            irr = float(r[7])
            e = self.irr_sum.get(s, 0.0)
            if abs(irr - e) > 1e-9 * max(1.0, abs(e)):
                ctx.violate("summary-seasonal-irrigation", h["step"], observed=irr, expected=e, irr_method=self.method)
            if irr > 0:
                ctx.hit("season_with_irrigation")
        if len(rows) >= 2:
            ctx.hit("multi_season_summary")
        cap = float(m._param_struct.IrrMngt.MaxIrrSeason)
        if any(abs(float(r[7]) - cap) < 1e-6 for r in rows) and cap < 9999:
            ctx.hit("seasonal_cap_binding")
        ck = m._clock_struct
        if int(ck.n_seasons) > len(rows):
            ctx.hit("season_cut_by_end_date")
