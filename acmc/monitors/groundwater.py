"""C19: shallow-groundwater relations (adjusted field capacity, saturation below the table, capillary-rise cap, z_gw series)."""
import numpy as np
import pandas as pd

from ..driver import Monitor, FX
from .water import Geometry

REL = 1e-9


def reference_zgw(gw_spec, dates):
    """Reference interpolation of the observations: step function ('Constant') or linear in days ('Variable').
    Returns (values, covered mask)."""
    obs = sorted((pd.Timestamp(d.replace("/", "-")), float(v)) for d, v in zip(gw_spec["dates"], gw_spec["values"]))
    od = np.array([o[0].value for o in obs], dtype=float)
    ov = np.array([o[1] for o in obs], dtype=float)
    x = np.array([pd.Timestamp(d).value for d in dates], dtype=float)
    method = gw_spec.get("method", "Constant")
    if len(obs) == 1:
        return np.full(len(x), ov[0]), np.ones(len(x), dtype=bool)
    if method == "Constant":
        idx = np.searchsorted(od, x, side="right") - 1
        vals = ov[np.clip(idx, 0, len(ov) - 1)]
        covered = x >= od[0]
    else:
        vals = np.interp(x, od, ov)
        covered = (x >= od[0]) & (x <= od[-1])
    return vals, covered


class C19Groundwater(Monitor):
    pid = "C19"
    taps = ("check_groundwater_table", "capillary_rise")

    def __init__(self):
        self.gwt = None
        self.cr_before = None
        self.cr_after = None

    def before(self, name, bound, args, kwargs):
        if name == "capillary_rise":
            nc = (bound or {}).get("NewCond") if bound is not None else (args[3] if len(args) > 3 else None)
            if nc is not None:
                self.cr_before = (np.array(nc.th, dtype=float, copy=True), np.array(nc.th_fc_Adj, dtype=float, copy=True))

    def after(self, name, bound, ret):
        if name == "check_groundwater_table":
            self.gwt = ret
        elif name == "capillary_rise":
            try:
                self.cr_after = np.array(ret[0].th, dtype=float, copy=True)
            except Exception:  # noqa: BLE001
                self.cr_after = None
        return None

    def on_init(self, ctx):
        m = ctx.model
        self.g = Geometry(m)
        self.wt = int(m._param_struct.water_table)
        prof = m._param_struct.Soil.Profile
        self.stale_mid = np.array(prof.zMid, dtype=float, copy=True)
        # "deepened" is a fact about the THICKNESSES (the model's differ from the ones the user gave), not about the mid-depths the
        # model happens to hold - otherwise any defect that corrupts zMid would be filed under the known finding F11
        user_dz = np.round(np.array((ctx.spec.get("soil") or {}).get("dz") or [0.1] * 12, dtype=float), 2)
        self.deepened = not (len(user_dz) == self.g.ncomp and np.allclose(user_dz, self.g.dz, atol=1e-9))
        ub = np.cumsum(user_dz)
        self.user_mid = ub - user_dz / 2 if len(user_dz) == self.g.ncomp else None   # centres BEFORE any deepening
        if self.deepened:
            ctx.hit("deepened_profile")
        gw = ctx.spec.get("gw")
        self.ref = None
        if gw is not None:
            dates = m._clock_struct.time_span
            self.ref = reference_zgw(gw, dates)

    def on_transition(self, ctx, pre, post):
        g = self.g
        f = post.flux
        t = pre.t
        ctx.evals += 1
        gwt, self.gwt = self.gwt, None
        crb, self.cr_before = self.cr_before, None
        cra, self.cr_after = self.cr_after, None
        cr, gwin = float(f[FX["CR"]]), float(f[FX["GwIn"]])
        if self.wt == 0:
            if cr != 0 or gwin != 0:
                ctx.violate("no-table-no-rise", t, observed={"CR": cr, "GwIn": gwin}, expected="both 0")
            return
        zgw = float(f[FX["z_gw"]])
        # z_gw series follows the observations
        if self.ref is not None:
            vals, covered = self.ref
            if covered[t] and abs(zgw - vals[t]) > 1e-9 * max(1.0, abs(vals[t])):
                ctx.violate("zgw-follows-observations", t, observed=zgw, expected=float(vals[t]), method=(ctx.spec["gw"] or {}).get("method"))
            if not covered[t]:
                ctx.hit("day_outside_observations")
        # adjusted field capacity
        if gwt is not None and gwt[0] is not None:
            adj = np.asarray(gwt[0], dtype=float)
            lo = adj < g.th_fc - REL
            hi = adj > g.th_s + REL
            if lo.any() or hi.any():
                i = int(np.argmax(lo | hi))
                ctx.violate("thfcadj-in-range", t, observed={"comp": i, "th_fc_adj": float(adj[i])}, expected={"fc": float(g.th_fc[i]), "sat": float(g.th_s[i])})
            far = (zgw - g.zmid) >= 2.0
            wrong = far & (np.abs(adj - g.th_fc) > REL)
            if wrong.any():
                i = int(np.argmax(wrong))
                ctx.violate("thfcadj-equals-fc-when-far", t, observed={"comp": i, "th_fc_adj": float(adj[i]), "z_gw": zgw, "mid": float(g.zmid[i])}, expected=float(g.th_fc[i]))
            if (adj > g.th_fc + 1e-6).any():
                ctx.hit("fc_raised_day")
        # capillary rise never lifts a compartment above its adjusted field capacity
        if crb is not None and cra is not None:
            thb, adjb = crb
            # capillary_rise rounds the room below adjusted field capacity to 4 decimals (the 0.0001 m3/m3 rounding the
            # statement of C01 names), so the cap is honoured to half a unit of that rounding
            over = cra > np.maximum(thb, adjb) + 0.5e-4 + REL
            if over.any():
                i = int(np.argmax(over))
                ctx.violate("capillary-rise-cap", t, observed={"comp": i, "after": float(cra[i]), "before": float(thb[i])}, expected={"le": float(max(thb[i], adjb[i]))})
        # compartments whose centre lies at or below the table are saturated at the end of the day
        # (a centre within 1e-9 m of the table is not judged either way: the depth of the day is an interpolated float)
        below = g.zmid > zgw + 1e-9 if zgw >= 0 else np.zeros(g.ncomp, dtype=bool)
        if below.any():
            ctx.hit("table_inside_profile_day")
            unsat = below & (post.th_end < g.th_s - REL)
            if unsat.any():
                i = int(np.argmax(unsat))
                ctx.violate(
                    "saturated-below-table",
                    t,
                    observed={"comp": i, "th": float(post.th_end[i]), "centre": float(g.zmid[i]), "z_gw": zgw},
                    expected={"th_s": float(g.th_s[i])},
                    # F11 exactly: the profile was deepened and the model judged this compartment by its PRE-deepening centre
                    stale_mid_above_table=bool(self.user_mid is not None and abs(self.stale_mid[i] - self.user_mid[i]) < 1e-9 and self.user_mid[i] < zgw),
                    deepened=self.deepened,
                )
        if cr > 0:
            ctx.hit("capillary_rise_day")
        if gwin > 0:
            ctx.hit("gwin_day")
        if zgw > g.zsoil:
            ctx.hit("table_below_profile_day")
