"""C12: content hashes of every configured parameter / weather record, before the first and after every transition."""
import hashlib

import numpy as np
import pandas as pd

from ..driver import Monitor, hash_obj_dict, _canon_value

PROFILE_ARRAYS = ("Comp", "dz", "Layer", "dzsum", "th_fc", "th_s", "th_wp", "Ksat", "Penetrability", "th_dry", "tau",
                  "zBot", "z_top", "zMid", "aCR", "bCR")
SOIL_SCALARS = ("zSoil", "nComp", "nLayer", "adj_rew", "rew", "calc_cn", "cn", "z_res", "evap_z_surf", "evap_z_min", "evap_z_max",
                "kex", "f_evap", "f_wrel_exp", "fwcc", "z_cn", "z_germ", "adj_cn", "fshape_cr", "z_top")


def _h(*parts):
    h = hashlib.sha256()
    for p in parts:
        _canon_value(h, p)
    return h.hexdigest()[:16]


def weather_hash(w):
    try:
        num = np.ascontiguousarray(np.array(w[:, :4], dtype=float))
        dates = np.array(w[:, 4], dtype="datetime64[ns]")
        return hashlib.sha256(num.tobytes() + dates.tobytes()).hexdigest()[:16]
    except Exception:  # noqa: BLE001
        return hashlib.sha256(repr(w.tolist()).encode()).hexdigest()[:16]


def param_hashes(model):
    ps = model._param_struct
    soil = ps.Soil
    prof = soil.Profile
    out = {}
    for a in PROFILE_ARRAYS:
        out["profile." + a] = _h(np.asarray(getattr(prof, a)))
    out["soil.scalars"] = _h([getattr(soil, k, None) for k in SOIL_SCALARS])
    df = soil.profile
    out["soil.profile_df"] = _h(df.drop(columns=[c for c in ("th_fc_Adj",) if c in df.columns]))
    for name in ("IrrMngt", "FallowIrrMngt", "FieldMngt", "FallowFieldMngt"):
        h = hashlib.sha256()
        hash_obj_dict(h, getattr(ps, name))
        out["struct." + name] = h.hexdigest()[:16]
    out["z_gw"] = _h(np.asarray(ps.z_gw, dtype=float))
    out["weather_matrix"] = weather_hash(model._weather)
    wdf = model.weather_df
    out["weather_df"] = _h(np.asarray(wdf[["MinTemp", "MaxTemp", "Precipitation", "ReferenceET"]].values, dtype=float), wdf["Date"].values.astype("datetime64[ns]"))
    out["weather_df.columns"] = _h(list(map(str, wdf.columns)))
    co2 = ps.CO2
    out["co2.table"] = _h(co2.co2_data, co2.ref_concentration, bool(co2.constant_conc))
    return out


def crop_hash(c):
    h = hashlib.sha256()
    hash_obj_dict(h, c)
    return h.hexdigest()[:16]


class C12ReadOnly(Monitor):
    pid = "C12"

    def on_init(self, ctx):
        self.base = param_hashes(ctx.model)
        self.crops = [crop_hash(c) for c in ctx.model._param_struct.Seasonal_Crop_List]
        ctx.evals += 1
        soil = ctx.model._param_struct.Soil
        prof = soil.Profile
        bounds = set(np.round(np.asarray(prof.dzsum, dtype=float), 6).tolist())
        if round(float(soil.z_cn), 6) not in bounds:
            ctx.hit("z_cn_off_boundary")
        if round(float(soil.z_germ), 6) not in bounds:
            ctx.hit("z_germ_off_boundary")
        if float(np.asarray(prof.dzsum)[-1]) > 3.05:
            ctx.hit("profile_deeper_than_3m")

    def on_transition(self, ctx, pre, post):
        ctx.evals += 1
        now = param_hashes(ctx.model)
        for k, v in now.items():
            if self.base.get(k) != v:
                ctx.violate("parameter-changed", pre.t, observed={"what": k}, expected="unchanged since initialisation", what=k)
                self.base[k] = v
        crops = [crop_hash(c) for c in ctx.model._param_struct.Seasonal_Crop_List]
        cur = int(ctx.model._clock_struct.season_counter)
        for k, (a, b) in enumerate(zip(self.crops, crops)):
            if a != b:
                if post.new_season and k == cur:
                    ctx.hit("crop_copy_updated_at_its_season_start")
                else:
                    ctx.violate("season-crop-changed-outside-its-start", pre.t, observed={"season": k, "current": cur}, expected="unchanged", season=k)
        self.crops = crops
        if post.flux[8] > 0:
            ctx.hit("runoff_day")
        if post.new_season:
            ctx.hit("season_start")
