"""Small reference models used as oracles next to the real run (plain Python, kept boring)."""
import datetime as dt


def ref_gdd(method, tupp, tbase, tmax, tmin):
    if method == 1:
        tm = (tmax + tmin) / 2
        tm = max(min(tm, tupp), tbase)
        return tm - tbase
    if method == 2:
        tmax = max(min(tmax, tupp), tbase)
        tmin = max(min(tmin, tupp), tbase)
        return (tmax + tmin) / 2 - tbase
    tmax = max(min(tmax, tupp), tbase)
    tmin = min(tmin, tupp)
    tm = max((tmax + tmin) / 2, tbase)
    return tm - tbase


def md(s):
    mm, dd = s.split("/")
    return int(mm), int(dd)


def calendar_reference(start, end, planting_md, harvest_md, n_seasons, off_season, maturity, thermal=None, death=None, max_steps=100000):
    """Reference calendar automaton (pure date arithmetic).

    start/end: datetime; planting_md/harvest_md: 'MM/DD'; n_seasons: number of scheduled seasons (taken from the model);
    maturity: days (calendar crops) or degree-day threshold (thermal crops, with thermal = function(date)->gdd);
    death: None or {season_index or '*': dap} -- the crop dies on that day after planting.
    Yields the expected trace: list of dicts(date, season, dap, gs, harvest, finished)."""
    pm, pd_ = md(planting_md)
    hm, hd = md(harvest_md)
    first = dt.datetime(start.year, pm, pd_)
    if first < start:
        first = dt.datetime(start.year + 1, pm, pd_)
    plantings = [dt.datetime(first.year + i, pm, pd_) for i in range(n_seasons)]
    spans_year = not (dt.datetime(1990, pm, pd_) < dt.datetime(1990, hm, hd))
    harvests = [dt.datetime(p.year + (1 if spans_year else 0), hm, hd) for p in plantings]
    one = dt.timedelta(days=1)
    date = start
    season = 0 if (n_seasons > 0 and start == plantings[0]) else -1
    dap = 0
    gddcum = 0.0
    mature = dead = flag = False
    out = []
    for _ in range(max_steps):
        # a season is over once its harvest event has happened (maturity, death, or latest harvest date reached)
        gs = season >= 0 and plantings[season] <= date <= harvests[season] and not mature and not dead and not flag
        if gs:
            dap += 1
            if thermal is not None:
                gddcum += thermal(date)
        else:
            dap = 0
            gddcum = 0.0
        if gs:
            k = None
            if death:
                k = death.get(str(season), death.get("*"))
            if k is not None and dap == k:
                dead = True
            if thermal is None:
                if dap >= maturity:
                    mature = True
            elif gddcum >= maturity:
                mature = True
        harvest = False
        if season >= 0 and (mature or dead or harvests[season] == date + one) and not flag:
            harvest = True
            flag = True
        finished = (date + one >= end) or (flag and season == n_seasons - 1)
        out.append({"date": date, "season": season, "dap": dap, "gs": gs, "harvest": harvest, "finished": finished})
        if finished:
            break
        if flag and not off_season:
            if season < n_seasons - 1:
                season += 1
                date = plantings[season]
                dap = 0
                gddcum = 0.0
                mature = dead = flag = False
        else:
            date = date + one
            if season < n_seasons - 1 and date == plantings[season + 1]:
                season += 1
                dap = 0
                gddcum = 0.0
                mature = dead = flag = False
    return out, plantings, harvests


# ---------------------------------------------------------------------------------------------
# soil layers (independent of Soil.add_layer)
# ---------------------------------------------------------------------------------------------
BUILTIN_LAYERS = {"Paddy": [0.5, 1.5], "ac_TunisLocal": [0.3, 1.7]}


def layer_thicknesses(ss):
    """Layer thicknesses as the user gave them."""
    if ss.get("layers"):
        return [float(l[0]) for l in ss["layers"]]
    if ss.get("texture"):
        return [float(l[0]) for l in ss["texture"]]
    return BUILTIN_LAYERS.get(ss["type"])


def reference_layer_map(bottoms, thick):
    """Layers are stacked from the surface: a compartment belongs to the first layer that still contains its bottom, each layer
    being measured from the bottom of the last compartment of the layer above; compartments below all layers take the last layer."""
    import numpy as np

    lay = np.zeros(len(bottoms), dtype=int)
    last = 0.0
    for k, t in enumerate(thick, start=1):
        idx = [i for i in range(len(bottoms)) if lay[i] == 0 and round(bottoms[i], 2) <= round(last + t, 2) + 1e-9]
        for i in idx:
            lay[i] = k
        if idx:
            last = bottoms[idx[-1]]
    cur = 0
    for i in range(len(lay)):
        if lay[i] == 0:
            lay[i] = cur
        cur = lay[i]
    return lay


def configured_limits(soil_spec):
    """Per-compartment (th_dry, th_wp, th_fc, th_s, Ksat) of a custom soil given by hydraulic values, from the spec alone
    (user thickness list, reference layer map); None for soils whose properties are not in the spec."""
    import numpy as np

    if not soil_spec.get("layers"):
        return None
    dz = np.round(np.array(soil_spec.get("dz") or [0.1] * 12, dtype=float), 2)
    lay = reference_layer_map(np.cumsum(dz), layer_thicknesses(soil_spec))
    if (lay == 0).any():
        return None
    L = soil_spec["layers"]
    wp = np.array([float(L[k - 1][1]) for k in lay])
    fc = np.array([float(L[k - 1][2]) for k in lay])
    sat = np.array([float(L[k - 1][3]) for k in lay])
    ks = np.array([float(L[k - 1][4]) for k in lay])
    return {"th_dry": wp / 2.0, "th_wp": wp, "th_fc": fc, "th_s": sat, "ksat": ks, "layer": lay}


# ---------------------------------------------------------------------------------------------
# CO2 (independent of compute_variables / reset_initial_conditions)
# ---------------------------------------------------------------------------------------------
_CO2_TABLE = None


def default_co2_table():
    """(years, ppm) of the bundled Mauna Loa / A1B record, parsed here from the data file."""
    global _CO2_TABLE
    if _CO2_TABLE is None:
        import os
        from . import REPO

        ys, ps = [], []
        with open(os.path.join(REPO, "aquacrop", "data", "MaunaLoaCO2.txt")) as f:
            for line in f:
                parts = line.split()
                if len(parts) == 2:
                    try:
                        ys.append(float(parts[0])); ps.append(float(parts[1]))
                    except ValueError:
                        continue
        _CO2_TABLE = (ys, ps)
    return _CO2_TABLE


def configured_co2(co2_spec, year, start_year):
    """Concentration the user's configuration prescribes for a season planted in `year`."""
    import numpy as np

    if co2_spec and co2_spec.get("table") is not None:
        ys, ps = [float(y) for y, _ in co2_spec["table"]], [float(p) for _, p in co2_spec["table"]]
    else:
        ys, ps = default_co2_table()
    if co2_spec and co2_spec.get("constant_conc"):
        c = float(co2_spec.get("current_concentration", 0.0) or 0.0)
        return c if c > 0 else float(np.interp(start_year, ys, ps))
    return float(np.interp(year, ys, ps))


def ref_fco2(conc, ref, bsted, bface, fsink, wp):
    """AquaCrop v7 CO2 adjustment of the water productivity."""
    import math

    if conc <= ref:
        fw = 0.0
    elif conc >= 550:
        fw = 1.0
    else:
        fw = 1 - ((550 - conc) / (550 - ref))
    f_old = (conc / ref) / (1 + (conc - ref) * ((1 - fw) * bsted + fw * ((bsted * fsink) + (bface * (1 - fsink)))))
    f_new = None
    if conc > ref:
        fshape = -4.61824 - 3.43831 * fsink - 5.32587 * fsink * fsink
        f_new = 1.58 if conc >= 2000 else 1 + 0.58 * ((math.exp(((conc - ref) / (2000 - ref)) * fshape) - 1) / (math.exp(fshape) - 1))
    if conc <= ref:
        f = f_old
    elif conc <= 550 and f_old < f_new:
        f = f_old
    else:
        f = f_new
    ftype = 0.0 if wp >= 40 else (1.0 if wp <= 20 else (40 - wp) / 20.0)
    return 1 + ftype * (f - 1)


# ---------------------------------------------------------------------------------------------
# pedotransfer function (Saxton & Rawls 2006, eqs. 1-5, 15-16), independent of Soil.calculate_soil_hydraulic_properties
# ---------------------------------------------------------------------------------------------
def saxton_rawls(sand_pct, clay_pct, om_pct, df=1.0):
    """(th_wp, th_fc, th_s, Ksat mm/day) from sand / clay in PERCENT by weight, organic matter in percent and the density factor
    (eqs. 6-10: saturation follows the adjusted density, field capacity loses 0.2 x the change in saturation)."""
    import math

    S, C, OM = sand_pct / 100.0, clay_pct / 100.0, float(om_pct)
    t1500 = -0.024 * S + 0.487 * C + 0.006 * OM + 0.005 * S * OM - 0.013 * C * OM + 0.068 * S * C + 0.031
    wp = t1500 + (0.14 * t1500 - 0.02)
    t33 = -0.251 * S + 0.195 * C + 0.011 * OM + 0.006 * S * OM - 0.027 * C * OM + 0.452 * S * C + 0.299
    fc = t33 + (1.283 * t33 * t33 - 0.374 * t33 - 0.015)
    ts33 = 0.278 * S + 0.034 * C + 0.022 * OM - 0.018 * S * OM - 0.027 * C * OM - 0.584 * S * C + 0.078
    s33 = ts33 + (0.636 * ts33 - 0.107)
    sat = fc + s33 - 0.097 * S + 0.043
    if df != 1.0:
        rho_n = (1.0 - sat) * 2.65
        sat_df = 1.0 - rho_n * df / 2.65
        fc = fc - 0.2 * (sat - sat_df)
        sat = sat_df
    lam = (math.log(fc) - math.log(wp)) / (math.log(1500.0) - math.log(33.0))
    ks = 1930.0 * (sat - fc) ** (3.0 - lam) * 24.0
    return wp, fc, sat, ks
