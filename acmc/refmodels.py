"""Small reference models used as oracles next to the real run (plain Python, kept boring)."""
import datetime as dt


def ref_gdd(method, tupp, tbase, tmax, tmin):
    if method == 1:
        tm = (tmax + tmin) / 2
        tm = max(min(tm, tupp), tbase)
        return tm - tbase
    if method == 2:
        tmax = max(min(tmax, tupp), tbase)
        tmin = max(min(tmin, tupp), tbase)
        return (tmax + tmin) / 2 - tbase
    tmax = max(min(tmax, tupp), tbase)
    tmin = min(tmin, tupp)
    tm = max((tmax + tmin) / 2, tbase)
    return tm - tbase


def md(s):
    mm, dd = s.split("/")
    return int(mm), int(dd)


def calendar_reference(start, end, planting_md, harvest_md, n_seasons, off_season, maturity, thermal=None, death=None, max_steps=100000):
    """Reference calendar automaton (pure date arithmetic).

    start/end: datetime; planting_md/harvest_md: 'MM/DD'; n_seasons: number of scheduled seasons (taken from the model);
    maturity: days (calendar crops) or degree-day threshold (thermal crops, with thermal = function(date)->gdd);
    death: None or {season_index or '*': dap} -- the crop dies on that day after planting.
    Yields the expected trace: list of dicts(date, season, dap, gs, harvest, finished)."""
    pm, pd_ = md(planting_md)
    hm, hd = md(harvest_md)
    first = dt.datetime(start.year, pm, pd_)
    if first < start:
        first = dt.datetime(start.year + 1, pm, pd_)
    plantings = [dt.datetime(first.year + i, pm, pd_) for i in range(n_seasons)]
    spans_year = not (dt.datetime(1990, pm, pd_) < dt.datetime(1990, hm, hd))
    harvests = [dt.datetime(p.year + (1 if spans_year else 0), hm, hd) for p in plantings]
    one = dt.timedelta(days=1)
    date = start
    season = 0 if (n_seasons > 0 and start == plantings[0]) else -1
    dap = 0
    gddcum = 0.0
    mature = dead = flag = False
    out = []
    for _ in range(max_steps):
        # a season is over once its harvest event has happened (maturity, death, or latest harvest date reached)
        gs = season >= 0 and plantings[season] <= date <= harvests[season] and not mature and not dead and not flag
        if gs:
            dap += 1
            if thermal is not None:
                gddcum += thermal(date)
        else:
            dap = 0
            gddcum = 0.0
        if gs:
            k = None
            if death:
                k = death.get(str(season), death.get("*"))
            if k is not None and dap == k:
                dead = True
            if thermal is None:
                if dap >= maturity:
                    mature = True
            elif gddcum >= maturity:
                mature = True
        harvest = False
        if season >= 0 and (mature or dead or harvests[season] == date + one) and not flag:
            harvest = True
            flag = True
        finished = (date + one >= end) or (flag and season == n_seasons - 1)
        out.append({"date": date, "season": season, "dap": dap, "gs": gs, "harvest": harvest, "finished": finished})
        if finished:
            break
        if flag and not off_season:
            if season < n_seasons - 1:
                season += 1
                date = plantings[season]
                dap = 0
                gddcum = 0.0
                mature = dead = flag = False
        else:
            date = date + one
            if season < n_seasons - 1 and date == plantings[season + 1]:
                season += 1
                dap = 0
                gddcum = 0.0
                mature = dead = flag = False
    return out, plantings, harvests
