"""Command line:  python -m acmc.cli C01 --tier quick   |   python -m acmc.cli --replay <file>"""
import argparse
import json
import os
import sys


def main(argv=None):
    ap = argparse.ArgumentParser()
    ap.add_argument("pid", nargs="?")
    ap.add_argument("--tier", default=os.environ.get("VERIF_TIER", "quick"), choices=["quick", "thorough"])
    ap.add_argument("--replay")
    ap.add_argument("--json", action="store_true")
    ap.add_argument("--workers", type=int, default=None)
    ap.add_argument("--limit", type=int, default=None)
    ap.add_argument("--selftest", action="store_true")
    a = ap.parse_args(argv)
    try:
        seed = int(os.environ.get("VERIF_SEED", "0") or 0)
    except ValueError:
        seed = 0
    from . import runner

    if a.selftest:
        from . import selftest

        return selftest.main()
    if a.replay:
        fails, v = runner.replay_file(a.replay)
        if a.json:
            print("REPLAY-JSON " + json.dumps({"fails": fails, "observed": (v or {}).get("observed"), "step": (v or {}).get("step"), "clause": (v or {}).get("clause")}, default=str))
        else:
            with open(a.replay) as f:
                rp = json.load(f)
            if fails:
                print(f"VIOLATION property={rp['property']} replay={os.path.abspath(a.replay)}")
                print(f"   clause={v['clause']} step={v.get('step')} observed={v.get('observed')} expected={v.get('expected')}")
            else:
                print(f"replay of {a.replay}: property {rp['property']} clause {rp['clause']} holds on the current tree")
        return 1 if fails else 0
    if not a.pid:
        ap.error("property id required")
    return runner.run_check(a.pid.upper(), a.tier, seed, workers=a.workers, limit=a.limit)


if __name__ == "__main__":
    sys.exit(main())
